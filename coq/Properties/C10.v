(* C10 — Rollback and supersession put traffic back on stable first.  Dispatch part (which branch a reconcile
   takes and in which order it touches BatchRelease and status); the order of the finalising tasks themselves
   is the subject of C04.  Statements only. *)
From RV Require Import Base.Util Base.IntStr Model.RolloutSM Corr.RolloutSM Proofs.RolloutSM.

(* a workload reverted to its stable revision: the reconcile switches to Cancelling and touches nothing else;
   the cancellation sequence (canary_tasks FrRollback) starts with RouteTrafficToStable *)
Theorem C10_rollback_cancels_first :
  forall sp st w br m u x y,
  reconcile sp st w br = ROut m ->
  rp_phase st = RpProgressing -> rs_deleting sp = false ->
  rp_prog st = Some (PrInRolling, x, y) -> rp_sub st = Some u ->
  wl_exists w = true -> wl_consistent w = true ->
  wl_in_rollback w = true -> wl_canary w <> su_canary_rev u -> rs_rollback_in_batch sp = false ->
  o_br m = br /\ exists s' e, o_status m = Some s' /\ rp_prog s' = Some (PrCancelling, true, e).
Proof. exact rollback_cancels_first. Qed.
Print Assumptions C10_rollback_cancels_first.

Theorem C10_rollback_order_routes_first : hd FtEnd (canary_tasks FrRollback) = FtRouteStable /\
  forall t, In t [FtResume; FtRelease] -> exists pre post, canary_tasks FrRollback = pre ++ t :: post /\ In FtRouteStable pre.
Proof. split; [reflexivity|]. intros t [<-|[<-|[]]]; cbn.
  - exists [FtRouteStable], [FtRelease; FtRestoreStable; FtRemoveCanarySvc]. split; [reflexivity|left; reflexivity].
  - exists [FtRouteStable; FtResume], [FtRestoreStable; FtRemoveCanarySvc]. split; [reflexivity|left; reflexivity]. Qed.
Print Assumptions C10_rollback_order_routes_first.

(* a newer revision supersedes the one being released: the BatchRelease is deleted first and the status is reset to
   Initializing (step one) only once it is gone *)
Theorem C10_supersession_resets_after_cleanup :
  forall sp st w br m u x y,
  reconcile sp st w br = ROut m ->
  rp_phase st = RpProgressing -> rs_deleting sp = false -> rs_paused sp = false ->
  rp_prog st = Some (PrInRolling, x, y) -> rp_sub st = Some u ->
  wl_exists w = true -> wl_consistent w = true ->
  wl_in_rollback w = false -> sempty (su_canary_rev u) = false -> wl_canary w <> su_canary_rev u ->
  match br with
  | Some b => o_br m = Some (mark_deleting b) /\ exists s', o_status m = Some s' /\ rp_sub s' <> None /\ o_requeue m = true
  | None => o_br m = None /\ exists s' e, o_status m = Some s' /\ rp_sub s' = None /\ rp_prog s' = Some (PrInitializing, true, e)
  end.
Proof. exact supersession_resets_after_cleanup. Qed.
Print Assumptions C10_supersession_resets_after_cleanup.

(* ---------- with traffic routing (Model/RolloutTR.v): traffic is back on stable BEFORE the pods go ---------- *)
From RV Require Model.TrafficMgr Model.RolloutTR Model.RolloutBG Proofs.Finalising Proofs.RolloutBG.

(* rollback: a reconcile of the cancellation sequence that patches or deletes the BatchRelease (resuming the workload and
   handing it back is what removes the new-revision pods) finds the canary route already gone and writes nothing to the
   network.  finv is the invariant that every cancellation history keeps (C04_finalising_history_safe), from any in-memory
   grace state, i.e. across crashes *)
Theorem C10_rollback_touches_workload_only_after_traffic_is_back :
  forall t u w br wr n g done o,
  RolloutTR.finalise_tr t u w br FrRollback wr n g = (done, o) -> Proofs.Finalising.finv FrRollback u n -> RolloutTR.co_br o <> br ->
  TrafficMgr.n_route n = TrafficMgr.RNone /\ RolloutTR.co_writes o = [].
Proof. exact Proofs.Finalising.rollback_touches_workload_after_traffic_back. Qed.
Print Assumptions C10_rollback_touches_workload_only_after_traffic_is_back.

(* supersession: the reset removes the BatchRelease only in a reconcile after whose writes the canary route is gone *)
Theorem C10_supersession_removes_pods_only_after_traffic_is_back :
  forall t u br n g done c,
  RolloutTR.reset_tr t u br n g = (done, c) -> RolloutTR.ts_refs t = true ->
  (su_fin u = FtRelease \/ su_fin u = FtRemoveCanarySvc -> TrafficMgr.n_route n = TrafficMgr.RNone) ->
  RolloutTR.co_br c <> br -> TrafficMgr.n_route (TrafficMgr.apply_writes n (RolloutTR.co_writes c)) = TrafficMgr.RNone.
Proof. exact Proofs.Finalising.supersession_removes_pods_after_traffic_back. Qed.
Print Assumptions C10_supersession_removes_pods_only_after_traffic_is_back.

(* a blue-green release refuses supersession: nothing moves until the user rolls back *)
Theorem C10_bluegreen_refuses_supersession :
  forall sp st w br m u x y,
  RolloutBG.reconcile_bg sp st w br = ROut m ->
  rp_phase st = RpProgressing -> rs_deleting sp = false ->
  rp_prog st = Some (PrInRolling, x, y) -> rp_sub st = Some u ->
  wl_exists w = true -> wl_consistent w = true -> rs_paused sp = false ->
  sempty (su_canary_rev u) = false -> wl_canary w <> su_canary_rev u -> wl_in_rollback w = false ->
  o_br m = br /\ exists s', o_status m = Some s' /\ rp_sub s' = Some u /\ rp_prog s' = rp_prog st.
Proof. exact Proofs.RolloutBG.bg_refuses_supersession. Qed.
Print Assumptions C10_bluegreen_refuses_supersession.

(* ---------- blue-green releases with traffic routing (Model/BGFinTR.v: the exit sequences of the blue-green manager) ---------- *)
From RV Require Model.BGFinTR Corr.BGFinTR Proofs.BGFinTR.
(* rollback: the reconcile that patches or deletes the BatchRelease -- the new-revision pods go, the workload is handed back --
   finds the canary route already gone and writes nothing to the network *)
Theorem C10_bluegreen_rollback_touches_workload_only_after_traffic_is_back : forall t u w br wr n g done o,
  BGFinTR.finalise_bgtr t u w br RolloutSM.FrRollback wr n g = (done, o) -> Corr.BGFinTR.finv_bg RolloutSM.FrRollback u n = true ->
  RolloutTR.co_br o <> br -> Corr.RolloutTR.route_gone n = true /\ RolloutTR.co_writes o = [].
Proof. exact Proofs.BGFinTR.bg_rollback_touches_workload_after_traffic_back. Qed.
Print Assumptions C10_bluegreen_rollback_touches_workload_only_after_traffic_is_back.
(* and the cursor leaves RouteTrafficToStable only on a network whose canary route is gone -- at whatever step, routed or not,
   the rollback (or any other exit) found the release *)
Theorem C10_bluegreen_cursor_passes_route_to_stable_only_when_the_route_is_gone : forall t u w br r wr n g done o,
  BGFinTR.finalise_bgtr t u w br r wr n g = (done, o) -> RolloutTR.ts_refs t = true ->
  RolloutSM.su_fin u = RolloutSM.FtRouteStable -> RolloutSM.su_fin (RolloutTR.co_sub o) <> RolloutSM.FtRouteStable ->
  TrafficMgr.n_route (TrafficMgr.apply_writes n (RolloutTR.co_writes o)) = TrafficMgr.RNone.
Proof. exact Proofs.BGFinTR.bg_cursor_passes_route_to_stable_only_when_gone. Qed.
Print Assumptions C10_bluegreen_cursor_passes_route_to_stable_only_when_the_route_is_gone.
