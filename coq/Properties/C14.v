(* C14 — Canary Ingress reflects the current step only.  Statements only. *)
From RV Require Import Base.Util Model.Ingress Proofs.Ingress.

(* for every built-in class, every annotation map and every two steps: entering s2 after s1 yields the same
   annotations (key by key) as entering s2 directly; by induction this extends to any sequence of earlier steps *)
Theorem C14_history_independent :
  forall c a s1 s2 a1 a2, script c a s1 = Some a1 -> script c a1 s2 = Some a2 ->
  exists a2', script c a s2 = Some a2' /\ forall k, aget k a2 = aget k a2'.
Proof. exact history_independent. Qed.
Print Assumptions C14_history_independent.

(* the generic theorem behind it: any script in clear-then-set form whose assigned keys are either cleared
   or always assigned is history independent *)
Theorem C14_clear_then_set_generic :
  forall K setsf feature,
  (forall a s a', gscript K setsf feature a s = Some a' -> feature a' = feature a) ->
  (forall s1 s2 b l1 l2, setsf s1 b = Some l1 -> setsf s2 b = Some l2 -> forall k, In k (map fst l1) -> In k K \/ In k (map fst l2)) ->
  forall a s1 s2 a1 a2, gscript K setsf feature a s1 = Some a1 -> gscript K setsf feature a1 s2 = Some a2 ->
  exists a2', gscript K setsf feature a s2 = Some a2' /\ forall k, aget k a2 = aget k a2'.
Proof. exact history_independent_generic. Qed.
Print Assumptions C14_clear_then_set_generic.

(* the canary Ingress contains exactly the paths of the stable Ingress that point at the stable Service,
   re-targeted to the canary Service, for every Ingress incl. rules without http and non-Service backends *)
Theorem C14_paths_exact :
  forall stable canary rs,
  all_paths (canary_rules stable canary rs) =
  map (fun hp => (fst hp, retarget_path canary (snd hp))) (filter (fun hp => svc_is stable (snd hp)) (all_paths rs)).
Proof. exact canary_paths_exact. Qed.
Print Assumptions C14_paths_exact.
