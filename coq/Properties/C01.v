(* C01 — Pod exposure never exceeds what the current step allows.  Arithmetic part: for every workload
   kind, every valid step (int or percent), every replica count n >= 0 (unbounded), with or without
   rollback-in-batches bookkeeping.  Statements only. *)
From RV Require Import Base.Util Base.IntStr Model.BatchArith Proofs.BatchArith.

(* the knob computed for a step exposes at most the step's allowance, plus at most 1% of n *)
Theorem C01_target_within_step :
  forall a step c, wf a step -> calc_ctx a = Some c -> within_step a step (c_target c) = true.
Proof. exact target_within_step. Qed.
Print Assumptions C01_target_within_step.

(* whatever UpgradeBatch writes is that knob *)
Theorem C01_upgrade_writes_the_target :
  forall k c n k', upgrade k c n = Some k' -> k' = c_target c \/ (k = DeployCanaryK /\ k' = IInt (c_desired c)).
Proof. exact upgrade_target. Qed.
Print Assumptions C01_upgrade_writes_the_target.

(* a write never lowers the exposure (outside the listed finding F12: partition Deployment whose
   current and desired partition have different types) *)
Theorem C01_upgrade_never_moves_back :
  forall a step c, wf a step -> calc_ctx a = Some c -> f12_region a = false -> not_backwards a c = true.
Proof. exact write_never_moves_back. Qed.
Print Assumptions C01_upgrade_never_moves_back.

Theorem C01_upgrade_never_moves_back_refuted_F12 :
  exists a c, wf a (IPct 10) /\ calc_ctx a = Some c /\ f12_region a = true /\ not_backwards a c = false.
Proof. exact f12_refutes_noback. Qed.
Print Assumptions C01_upgrade_never_moves_back_refuted_F12.

(* later steps of a same-typed non-decreasing plan allow at least as much *)
Theorem C01_plan_monotone :
  forall s1 s2 n, 0 <= n -> valid_step s1 -> valid_step s2 ->
  match s1, s2 with IInt a, IInt b => a <= b | IPct a, IPct b => a <= b | _, _ => False end ->
  planned_of s1 n <= planned_of s2 n.
Proof. exact planned_monotone. Qed.
Print Assumptions C01_plan_monotone.
