(* C06 — Controller crashes and API errors never corrupt a rollout.  Statements only (partial: see DESIGN.md, C06).
   A crash loses exactly the in-memory state: the grace expectations (and the reconcile in flight).  Every function of the
   reconcile model takes the expectations as an ARBITRARY argument, and a reconcile cut short or failed leaves a prefix of
   its writes with the status not persisted.  So "for every state and every expectation set" covers every crash point. *)
From RV Require Import Base.Util Base.IntStr Model.RolloutSM Model.TrafficMgr Model.RolloutTR Corr.RolloutSM Corr.RolloutTR
  Proofs.RolloutSM Proofs.RolloutTR gen.TaskTables Proofs.Finalising.

(* one reconcile of the finalising phase, from any persisted cursor and any expectations, with its status write possibly
   lost, keeps the invariant (no route into the void; what earlier tasks established stays established) *)
Theorem C06_finalising_reconcile_keeps_invariant : forall t u w br r wr n g done o,
  finalise_tr t u w br r wr n g = (done, o) -> ts_refs t = true -> wl_exists w = true ->
  finv r u n -> finv r (if co_err o then u else co_sub o) (apply_writes n (co_writes o)).
Proof. exact finalise_tr_keeps_finv. Qed.
Print Assumptions C06_finalising_reconcile_keeps_invariant.

(* and at most one network write happens per reconcile of that phase, so "after every reconcile" is "after every write" *)
Theorem C06_one_write_per_finalising_reconcile : forall t u w br r wr n g done o,
  finalise_tr t u w br r wr n g = (done, o) -> su_fin u <> FtEnd -> ts_refs t = true -> wl_exists w = true -> (List.length (co_writes o) <= 1)%nat.
Proof. exact finalise_tr_one_write. Qed.
Print Assumptions C06_one_write_per_finalising_reconcile.

(* whole histories with arbitrary restarts, time and failures between the reconciles end clean *)
Theorem C06_finalising_history_ends_clean : forall t r wr u n xs,
  ts_refs t = true -> Forall (fun x => wl_exists (fe_w x) = true) xs ->
  su_fin u = FtNone -> (n_route n <> RNone -> n_canary_svc n <> None) ->
  let '(u', n') := fin_run t r wr (u, n) xs in
  (n_route n' <> RNone -> n_canary_svc n' <> None) /\
  (su_fin u' = FtEnd -> n_route n' = RNone /\ n_canary_svc n' = None /\ (n_stable_exists n' = true -> unpinned n')).
Proof. exact finalising_history_safe. Qed.
Print Assumptions C06_finalising_history_ends_clean.

(* rolling: whatever the in-memory state after a restart, the gateway is written only in the traffic-routing state behind
   correct Services (restated from C03: its statement quantifies over all expectation sets) *)
Theorem C06_restart_cannot_route_early : forall t st w br n g r,
  reconcile_tr t st w br n g = TrOut r -> ~ no_route_writes (t_writes r) ->
  rp_phase st = RpProgressing /\ (exists s e, rp_prog st = Some (PrInRolling, s, e)) /\
  exists u0 x, rp_sub st = Some u0 /\ su_state u0 = StTraffic /\ su_elapsed u0 = true /\
               n_stable_sel n = Some (su_stable u0) /\ (exists c, n_canary_svc n = Some c) /\ t_writes r = [WRoute x].
Proof. exact route_written_only_after_ready. Qed.
Print Assumptions C06_restart_cannot_route_early.

(* the manager's operations are idempotent on a restored network: running one again after it completed writes nothing *)
Theorem C06_restore_gateway_idempotent : forall c n g g', tc_refs c = true -> tr_ok (restore_gateway c n g) = true ->
  tr_writes (restore_gateway c (apply_writes n (tr_writes (restore_gateway c n g))) g') = [].
Proof. exact restore_gateway_again. Qed.
Print Assumptions C06_restore_gateway_idempotent.

(* a reconcile that changes a Service while routing traffic persists a fresh timestamp: the grace wait of the next
   reconcile is measured on the status, so a restarted controller waits exactly like one that kept running *)
Theorem C06_wait_survives_restart : forall t u w br cur n g o,
  canary_step_tr t u w br cur n g [] = CrOut o -> su_state u = StTraffic -> co_err o = false ->
  existsb is_service_write_w (co_writes o) = true -> su_elapsed (co_sub o) = false.
Proof. exact traffic_service_change_is_persisted. Qed.
Print Assumptions C06_wait_survives_restart.

(* ---------- API failures inside the workload control planes ---------- *)
From RV Require Model.CtlPlane Proofs.CtlPlane.
(* the fault f ranges over every API call of the operation: whichever one fails, a Finalize that reports success has
   released the workload (so "Completed" is never recorded over a leaked finalizer or claim), and a failed partition-style
   Finalize leaves the Deployment exactly as it was *)
Theorem C06_canary_finalize_success_is_never_partial : forall p wr f d d',
  CtlPlane.cdep_finalize p wr f d = (CtlPlane.Done, d') -> CtlPlane.cdep_released d' = true.
Proof. exact Proofs.CtlPlane.cdep_finalize_done_means_released. Qed.
Print Assumptions C06_canary_finalize_success_is_never_partial.
Theorem C06_partition_finalize_failure_changes_nothing : forall p f d d',
  CtlPlane.pdep_finalize p f d = (CtlPlane.Failed, d') -> d' = d.
Proof. exact Proofs.CtlPlane.pdep_finalize_failed_unchanged. Qed.
Print Assumptions C06_partition_finalize_failure_changes_nothing.

(* the blue-green control planes under a failing API call: whichever Patch of the scenario fails (the quantifier over f),
   retrying the phase ends with the workload handed back as configured -- same statement as C05's, read for faults *)
From RV Require Model.HandBack Corr.HandBack Proofs.HandBack.
Theorem C06_bluegreen_handed_back_whatever_call_failed : forall k n steps (f : HandBack.fault) w0 errs w,
  HandBack.fresh w0 = true ->
  HandBack.scenario k n false (HandBack.PInit :: map HandBack.PUpgrade steps ++ [HandBack.PFinal]) f w0 = (errs, w) ->
  Corr.HandBack.all_phases_done errs = true -> HandBack.handed_back k w0 w = true.
Proof. exact Proofs.HandBack.handed_back_as_configured. Qed.
Print Assumptions C06_bluegreen_handed_back_whatever_call_failed.

(* the release marker is the last thing the blue-green Initialize writes: if the workload carries it afterwards -- whichever
   Patch failed, however often Initialize was attempted -- the HPA has been detached (a retry that finds the marker returns at
   once, so nothing would detach it later) *)
Theorem C06_bluegreen_release_marker_means_hpa_detached : forall k n (f : HandBack.fault) w0 errs w,
  HandBack.fresh w0 = true -> HandBack.scenario k n false [HandBack.PInit] f w0 = (errs, w) ->
  HandBack.w_claimed w = true -> HandBack.w_hpa w <> Some false.
Proof. exact Proofs.HandBack.marker_means_hpa_detached. Qed.
Print Assumptions C06_bluegreen_release_marker_means_hpa_detached.
