(* Correspondence and property oracles for the validate engine (C09, validation half). *)
From RV Require Export Base.Util Base.IntStr Model.Validate.

Record vcase := {
  vc_alpha : bool; vc_update : bool; vc_new : vrollout; vc_old : vrollout; vc_others : list vrollout;
  vc_live_busy : bool;                 (* the live object's phase is Progressing or Terminating *)
  vc_same_traffic : bool;              (* old and new traffic routings are deeply equal *)
  vc_allowed : bool; vc_panic : bool
}.
Definition case := vcase.

(* v1alpha1 update rules (the generator only submits well-formed v1alpha1 specs) *)
Definition alpha_update_ok (c : case) : bool :=
  negb (conflicts (vc_new c) (vc_others c)) &&
  (if vc_live_busy c then
     String.eqb (vr_key (v_ref (vc_old c))) (vr_key (v_ref (vc_new c))) && vc_same_traffic c &&
     String.eqb (v_style_anno (vc_old c)) (v_style_anno (vc_new c)) &&
     (zlen (steps_of (v_strategy (vc_old c))) =? zlen (steps_of (v_strategy (vc_new c))))
   else true).

Definition model_allows (c : case) : bool :=
  if vc_alpha c then alpha_update_ok c
  else if vc_update c then update_ok (vc_old c) (vc_new c) (vc_others c) (vc_live_busy c) (vc_same_traffic c)
  else create_ok (vc_new c) (vc_others c).

(* ---- the structural promises, stated on what was admitted ---- *)
(* every pair of steps of the same type is ordered *)
Fixpoint all_pairs_ordered (steps : list vstep) : bool :=
  match steps with
  | [] => true
  | s :: t => forallb (fun x => negb (Bool.eqb (is_pct (vs_replicas s)) (is_pct (vs_replicas x))) || (val100 (vs_replicas s) <=? val100 (vs_replicas x))) t
              && all_pairs_ordered t
  end.
Definition steps_promise (r : vrollout) : bool :=
  let steps := steps_of (v_strategy r) in
  negb (match steps with [] => true | _ => false end) &&
  forallb (fun s => match vs_replicas s with Some x => negb (snd (scaled_err true x 100)) && (0 <? scaled true x 100) | None => false end) steps &&
  all_pairs_ordered steps.
Definition structure_kept (c : case) : bool :=
  String.eqb (vr_key (v_ref (vc_old c))) (vr_key (v_ref (vc_new c))) && vc_same_traffic c &&
  (zlen (steps_of (v_strategy (vc_old c))) =? zlen (steps_of (v_strategy (vc_new c)))) &&
  (if vc_alpha c then String.eqb (v_style_anno (vc_old c)) (v_style_anno (vc_new c)) else vstyle_eqb (rolling_style (vc_old c)) (rolling_style (vc_new c))).

Definition judge (c : case) : list verdict :=
  [ if Bool.eqb (model_allows c) (vc_allowed c) && negb (vc_panic c) then VOk else VMismatch;
    clause "C09_admitted_steps_are_non_empty_and_ordered" (negb (vc_allowed c) || vc_alpha c || steps_promise (vc_new c));
    clause "C09_one_rollout_per_workload" (negb (vc_allowed c) || negb (conflicts (vc_new c) (vc_others c)));
    clause "C09_no_structural_change_while_progressing" (negb (vc_allowed c && vc_update c && vc_live_busy c) || structure_kept c);
    clause "C09_validation_never_panics" (negb (vc_panic c)) ].

Definition tag (c : case) : string :=
  ((if vc_alpha c then "v1alpha1" else "v1beta1") ++ (if vc_update c then (if vc_live_busy c then "/update-busy" else "/update-idle") else "/create") ++
   (if vc_allowed c then "/allowed" else "/denied"))%string.
