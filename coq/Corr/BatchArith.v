(* Correspondence and property oracles for the arith engine (C01, C07). *)
From RV Require Export Base.Util Base.IntStr Model.BatchArith.

Record arith_obs := {
  ao_panic : bool; ao_err : bool; ao_planned : Z; ao_desired : Z; ao_target : ios;
  ao_wrote : bool; ao_knob_after : option ios
}.
Definition case := (arith_in * arith_obs)%type.

Definition raw_knob (v : option ios) : ios := match v with Some x => x | None => IInt 0 end.

Definition corresponds (a : arith_in) (o : arith_obs) : bool :=
  match calc_ctx a with
  | None => ao_panic o
  | Some c =>
    negb (ao_panic o) && negb (ao_err o) &&
    (c_planned c =? ao_planned o) && (c_desired c =? ao_desired o) && ios_eqb (c_target c) (ao_target o) &&
    match upgrade (a_kind a) c (a_n a) with
    | Some k' => ao_wrote o && ios_eqb k' (raw_knob (ao_knob_after o))
    | None => negb (ao_wrote o) && ios_eqb (raw_knob (a_knob a)) (raw_knob (ao_knob_after o))
    end
  end.

Definition in_domain (a : arith_in) : bool :=
  (0 <=? a_cur a) && (a_cur a <? zlen (a_plan a)) && (0 <=? a_n a) &&
  forallb (fun s => match s with IInt z => 0 <? z | IPct p => (0 <? p) && (p <=? 100) | IBad => false end) (a_plan a).

Definition judge (cs : case) : list verdict :=
  let '(a, o) := cs in
  if negb (in_domain a) then [] else
  (if corresponds a o then VOk else VMismatch) ::
  clause "C09_arith_no_panic" (negb (ao_panic o)) ::
  (if ao_panic o || ao_err o then [] else
   match znth (a_plan a) (a_cur a) with
   | None => []
   | Some step =>
     let k := a_kind a in
     let before := knob_default k (a_knob a) in
     let after := raw_knob (ao_knob_after o) in
     let eff := if ao_wrote o then after else before in
     (* a known finding excuses a failing clause only when the implementation does exactly what the faithful model (which
        embodies the finding) does; a different behaviour inside the same region is a different violation *)
     let as_model := corresponds a o in
     [ clause_known "C01_write_within_step" "C01:F12" (f12_region a && as_model)
         (negb (ao_wrote o) || within_step a step after);
       clause_known "C01_write_never_moves_back" "C01:F12" (f12_region a && as_model)
         (negb (ao_wrote o) || (exposed k before (a_n a) <=? exposed k after (a_n a)));
       (* C11: the readiness target is what the batch calls for: at least the step's share of the workload, rounded UP and
          capped at the workload's size (no pods are excused by rounding).  With no-need-update pods (rollback in batches) the
          target is reduced on purpose, so the clause is about ordinary batches *)
       clause "C11_readiness_target_is_what_the_batch_calls_for"
         (match a_noneed a with
          | Some _ => true
          | None => (match k with
                     | DeployPartK | BGDeployK => new_rs_limit step (a_n a)   (* Deployments keep one old pod below 100% by design *)
                     | _ => Z.min (a_n a) (scaled true step (a_n a)) end) <=? ao_desired o
          end);
       (if f1_region a then clause_known "C07_target_suffices" "C07:F1" as_model (suffices a (ao_desired o) eff)
        else if f12_region a then clause_known "C07_target_suffices" "C07:F12" as_model (suffices a (ao_desired o) eff)
        else if f21_region a then clause_known "C07_target_suffices" "C07:F21" as_model (suffices a (ao_desired o) eff)
        else clause "C07_target_suffices" (suffices a (ao_desired o) eff)) ]
   end).

Definition tag (cs : case) : string :=
  let '(a, o) := cs in
  match calc_ctx a with
  | None => "panic"
  | Some c => match upgrade (a_kind a) c (a_n a) with Some _ => "write" | None => "no-op" end
  end.
