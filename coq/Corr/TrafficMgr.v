(* Correspondence and property oracles for the trafficmgr engine (manager-level clauses of C03 / C04). *)
From RV Require Export Base.Util Model.TrafficMgr.

Inductive tkind := KDo | KFinalising | KRestoreStable | KPatchStable | KRestoreGateway | KRemoveCanary | KRouteNew.
Inductive top := TCall (k : tkind) (c : tctx) | TTick | TCrash.
Record tstep := { ts_panic : bool; ts_ok : bool; ts_err : bool; ts_writes : list string; ts_net : net; ts_pending : list gaction; ts_touched : bool }.
Record tcase := { tc_net : net; tc_ops : list top; tc_steps : list tstep }.
Definition case := tcase.

Definition call (k : tkind) (c : tctx) (n : net) (g : graces) : tres :=
  match k with
  | KDo => do_traffic_routing c n g
  | KFinalising => finalising_traffic_routing c n g
  | KRestoreStable => restore_stable_service c n g
  | KPatchStable => patch_stable_service c n g
  | KRestoreGateway => restore_gateway c n g
  | KRemoveCanary => remove_canary_service c n g
  | KRouteNew => route_all_to_new c n g
  end.

Definition net_eqb (a b : net) : bool :=
  Bool.eqb (n_stable_exists a) (n_stable_exists b) && opt_eqb String.eqb (n_stable_sel a) (n_stable_sel b) &&
  opt_eqb String.eqb (n_canary_svc a) (n_canary_svc b) && route_eqb (n_route a) (n_route b).

(* the API call a write turns into, given the network state it is applied to *)
Definition write_name (n : net) (w : write) : string :=
  match w with
  | WCreateCanarySvc _ => "create Service svc-canary"
  | WPatchCanarySvc _ => "patch Service svc-canary"
  | WDeleteCanarySvc => "delete Service svc-canary"
  | WPinStable _ | WUnpinStable => "patch Service svc"
  | WRoute _ => match n_route n with RNone => "create Ingress web-canary" | RSet _ => "patch Ingress web-canary" end
  | WDeleteRoute => "delete Ingress web-canary"
  end.
Fixpoint write_names (n : net) (ws : list write) : list string :=
  match ws with [] => [] | w :: t => write_name n w :: write_names (apply_write n w) t end.

Definition same_actions (g : graces) (l : list gaction) : bool :=
  forallb (fun p => existsb (gaction_eqb (fst p)) l) g && forallb (fun a => existsb (fun p => gaction_eqb (fst p) a) g) l.

Definition model_step (n : net) (g : graces) (o : top) : tres :=
  match o with
  | TCall k c => call k c n g
  | TTick => tdone true (g_tick g)
  | TCrash => tdone true []
  end.
Definition step_matches (n : net) (r : tres) (s : tstep) : bool :=
  negb (ts_panic s) && Bool.eqb (tr_ok r) (ts_ok s) && Bool.eqb (tr_err r) (ts_err s) &&
  list_eqb String.eqb (write_names n (tr_writes r)) (ts_writes s) && net_eqb (apply_writes n (tr_writes r)) (ts_net s) &&
  same_actions (tr_graces r) (ts_pending s) && Bool.eqb (tr_touched r) (ts_touched s).

(* re-synchronised on the observed network state after every step; the grace bookkeeping is carried by the model *)
Fixpoint corresponds (n : net) (g : graces) (ops : list top) (obs : list tstep) : bool :=
  match ops, obs with
  | [], [] => true
  | o :: ops', s :: obs' => let r := model_step n g o in step_matches n r s && corresponds (ts_net s) (tr_graces r) ops' obs'
  | _, _ => false
  end.

(* ---- manager-level clauses on the observed calls ---- *)
(* C03: when DoTrafficRouting reports done for a step with traffic, the gateway carries exactly that step's strategy, the
   canary Service selects the canary revision and the stable Service is pinned to the stable revision *)
Definition routed_exactly (c : tctx) (n : net) : bool :=
  if negb (tc_refs c) || strategy_empty (tc_strategy c) then true else
  (match n_route n with RSet s => strategy_eqb s (tc_strategy c) | RNone => strategy_eqb (tc_strategy c) init_strategy end) &&
  (* without a generated canary Service the route points at the stable Service and nothing is pinned *)
  (tc_only_traffic c || (opt_eqb String.eqb (n_canary_svc n) (Some (tc_canary_rev c)) && opt_eqb String.eqb (n_stable_sel n) (Some (tc_stable_rev c)))).
(* C04: a call never writes a route while the canary Service is missing or selects something else, and never deletes the
   canary Service while a route still points at it *)
Definition is_route_write (s : string) : bool := String.eqb s "create Ingress web-canary" || String.eqb s "patch Ingress web-canary".
Definition route_write_safe (before : net) (c : tctx) (k : tkind) (s : tstep) : bool :=
  if existsb is_route_write (ts_writes s) then
    match k with
    | KDo => opt_eqb String.eqb (n_canary_svc before) (Some (tc_canary_rev c))
    | _ => true
    end
  else true.
Definition canary_svc_delete_safe (before : net) (s : tstep) : bool :=
  if existsb (String.eqb "delete Service svc-canary") (ts_writes s) then
    match n_route before with RNone => true | RSet _ => existsb (String.eqb "delete Ingress web-canary") (ts_writes s) end
  else true.

(* the observed API calls replayed on the network state (the strategy a route write carries does not matter here) *)
Definition replay_name (n : net) (w : string) : net :=
  if String.eqb w "delete Ingress web-canary" then apply_write n WDeleteRoute
  else if is_route_write w then apply_write n (WRoute init_strategy)
  else if String.eqb w "delete Service svc-canary" then apply_write n WDeleteCanarySvc
  else if String.eqb w "create Service svc-canary" || String.eqb w "patch Service svc-canary" then apply_write n (WCreateCanarySvc "")
  else n.
Definition route_behind_service_b (n : net) : bool :=
  match n_route n with RNone => true | RSet _ => match n_canary_svc n with Some _ => true | None => false end end.
(* C04 at every write: starting from a state where no route points at a missing canary Service, no prefix of the observed
   writes produces one *)
Fixpoint prefixes_safe (n : net) (ws : list string) : bool :=
  match ws with [] => true | w :: t => let n' := replay_name n w in route_behind_service_b n' && prefixes_safe n' t end.
Definition writes_never_route_into_void (n : net) (ws : list string) : bool :=
  if route_behind_service_b n then prefixes_safe n ws else true.

(* C06: after a call that withdrew the route (and asked to wait), the canary Service is not deleted before time has passed
   or the process restarted -- in particular not because some call in between failed *)
Fixpoint service_waits_for_route (zero_grace : bool) (recent : bool) (ops : list top) (obs : list tstep) : bool :=
  match ops, obs with
  | o :: ops', s :: obs' =>
    match o with
    | TTick | TCrash => service_waits_for_route zero_grace false ops' obs'
    | TCall k c =>
      let deleted_route := existsb (String.eqb "delete Ingress web-canary") (ts_writes s) in
      let deleted_svc := existsb (String.eqb "delete Service svc-canary") (ts_writes s) in
      (* FinalisingTrafficRouting sequences the two itself; direct RemoveCanaryService calls are sequenced by the caller *)
      (match k with KFinalising => tc_zero_grace c || negb (recent && deleted_svc) | _ => true end) &&
      service_waits_for_route zero_grace ((recent || deleted_route) && negb (tc_zero_grace c)) ops' obs'
    end
  | _, _ => true
  end.

Fixpoint clauses (n : net) (ops : list top) (obs : list tstep) : bool * bool * bool :=
  match ops, obs with
  | o :: ops', s :: obs' =>
    let '(a, b, d) :=
      match o with
      | TCall k c =>
        ((match k with KDo => if ts_ok s && negb (ts_err s) then routed_exactly c (ts_net s) else true | _ => true end),
         (tc_only_traffic c ||
          (route_write_safe n c k s &&
           (* RouteAllTrafficToNewVersion and RemoveCanaryService rely on their callers' ordering; the others are safe from any state *)
           (match k with KRouteNew | KRemoveCanary => true | _ => writes_never_route_into_void n (ts_writes s) end))) &&
         (* the stable Service -- which every route ends at when no canary Service is generated -- is never deleted by anything *)
         negb (existsb (String.eqb "delete Service svc") (ts_writes s)),
         (match k with KFinalising | KRemoveCanary => true | _ => negb (existsb (String.eqb "delete Service svc-canary") (ts_writes s)) end))
      | _ => (true, true, true)
      end in
    let '(a', b', d') := clauses (ts_net s) ops' obs' in (a && a', b && b', d && d')
  | _, _ => (true, true, true)
  end.

Definition judge (c : case) : list verdict :=
  let '(a, b, d) := clauses (tc_net c) (tc_ops c) (tc_steps c) in
  [ if corresponds (tc_net c) [] (tc_ops c) (tc_steps c) then VOk else VMismatch;
    clause "C03_routed_means_exact" a;
    clause "C04_route_written_only_behind_canary_service" b;
    clause "C04_canary_service_removed_only_by_its_operation" d;
    clause "C06_failed_call_does_not_skip_the_wait" (service_waits_for_route false false (tc_ops c) (tc_steps c)) ].

Definition tag (c : case) : string :=
  let n := count (fun s => negb (match ts_writes s with [] => true | _ => false end)) (tc_steps c) in
  if (n =? 0)%Z then "no-write" else if (n <=? 2)%Z then "few-writes" else "many-writes".
