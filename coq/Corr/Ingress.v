(* Correspondence and property oracles for the ingress engine (C14, fixed-point part of C07). *)
From RV Require Export Base.Util Base.IntStr Model.Ingress.

Inductive iop := IEnsure (s : istrategy) | IFinalise.
Inductive icall := CPanic | CErr | CRes (flag : bool) (canary : option ingress).
Record icase := {
  ic_class : iclass; ic_stable : string; ic_canary : string; ic_ingress : ingress;
  ic_ops : list iop; ic_obs : list icall;
  ic_stable_unchanged : bool;            (* the stable Ingress object is byte-identical after all operations *)
  ic_fresh : option amap                 (* annotations after applying the last ensure step to a freshly created canary Ingress *)
}.
Definition case := icase.

Definition path_eqb (a b : ipath) : bool :=
  String.eqb (ip_path a) (ip_path b) && String.eqb (ip_type a) (ip_type b) &&
  opt_eqb String.eqb (ip_svc a) (ip_svc b) && String.eqb (ip_port a) (ip_port b).
Definition rule_eqb (a b : irule) : bool := String.eqb (ir_host a) (ir_host b) && opt_eqb (list_eqb path_eqb) (ir_http a) (ir_http b).
Definition ingress_eqb (a b : ingress) : bool :=
  amap_eqb (in_annos a) (in_annos b) && String.eqb (in_rest a) (in_rest b) && list_eqb rule_eqb (in_rules a) (in_rules b).

Definition strategy_eqb (a b : istrategy) : bool :=
  let h x y := String.eqb (h_type x) (h_type y) && String.eqb (h_name x) (h_name y) && String.eqb (h_value x) (h_value y) in
  opt_eqb Z.eqb (is_weight a) (is_weight b) &&
  list_eqb (fun m n => list_eqb h (im_headers m) (im_headers n) && list_eqb h (im_query m) (im_query n)) (is_matches a) (is_matches b) &&
  opt_eqb (list_eqb (fun x y => String.eqb (fst x) (fst y) && String.eqb (snd x) (snd y))) (is_modifier a) (is_modifier b).
Definition op_eqb (a b : iop) : bool :=
  match a, b with IEnsure s, IEnsure t => strategy_eqb s t | IFinalise, IFinalise => true | _, _ => false end.

(* model of one call; Finalise deletes the canary Ingress *)
Definition model_call (g : icase) (cn : option ingress) (op : iop) : icall :=
  match op with
  | IEnsure s => match ensure (ic_class g) (ic_stable g) (ic_canary g) (ic_ingress g) cn s with
                 | IPanic => CPanic | IErr => CErr | IDone f c => CRes f c end
  | IFinalise => match cn with Some _ => CRes true None | None => CRes false None end
  end.
Definition call_eqb (a b : icall) : bool :=
  match a, b with
  | CPanic, CPanic | CErr, CErr => true
  | CRes f c, CRes f' c' => Bool.eqb f f' && opt_eqb ingress_eqb c c'
  | _, _ => false
  end.
Definition state_after (cn : option ingress) (o : icall) : option ingress := match o with CRes _ c => c | _ => cn end.

Fixpoint corresponds (g : icase) (cn : option ingress) (ops : list iop) (obs : list icall) : bool :=
  match ops, obs with
  | [], [] => true
  | op :: ops', o :: obs' => call_eqb (model_call g cn op) o && corresponds g (state_after cn o) ops' obs'
  | _, _ => false
  end.

(* history independence according to the model, for the fresh run *)
Definition last_ensure (ops : list iop) : option istrategy :=
  fold_left (fun acc op => match op with IEnsure s => Some s | IFinalise => acc end) ops None.
Definition model_fresh (g : icase) : option amap :=
  match last_ensure (ic_ops g) with
  | None => None
  | Some s =>
    match ensure (ic_class g) (ic_stable g) (ic_canary g) (ic_ingress g) None {| is_weight := Some 1; is_matches := []; is_modifier := None |} with
    | IDone _ (Some c0) => match ensure (ic_class g) (ic_stable g) (ic_canary g) (ic_ingress g) (Some c0) s with
                           | IDone _ (Some c1) => Some (in_annos c1) | _ => None end
    | _ => None
    end
  end.

(* ---------- property clauses ---------- *)
Definition flat_paths (svc : option string) (rs : list irule) : list (string * ipath) :=
  flat_map (fun r => match ir_http r with
                     | Some ps => map (fun p => (ir_host r, p)) (filter (fun p => match svc with None => true | Some s => opt_eqb String.eqb (ip_svc p) (Some s) end) ps)
                     | None => [] end) rs.
Definition retarget (canary : string) (hp : string * ipath) : string * ipath :=
  (fst hp, {| ip_path := ip_path (snd hp); ip_type := ip_type (snd hp); ip_svc := Some canary; ip_port := ip_port (snd hp) |}).
(* the canary Ingress contains exactly the stable Ingress's paths that point at the stable Service, re-targeted *)
Definition paths_exact (g : icase) (c : ingress) : bool :=
  list_eqb (fun a b => String.eqb (fst a) (fst b) && path_eqb (snd a) (snd b))
           (map (retarget (ic_canary g)) (flat_paths (Some (ic_stable g)) (in_rules (ic_ingress g))))
           (flat_paths None (in_rules c)).

Definition any_panic (obs : list icall) : bool := existsb (fun o => match o with CPanic => true | _ => false end) obs.
Definition final_state (obs : list icall) : option ingress := fold_left state_after obs None.
(* state after the last ensure call (before any later finalise) *)
Fixpoint state_at_last_ensure (ops : list iop) (obs : list icall) (cn acc : option ingress) : option ingress :=
  match ops, obs with
  | op :: ops', o :: obs' => let cn' := state_after cn o in
                             state_at_last_ensure ops' obs' cn' (match op with IEnsure _ => cn' | IFinalise => acc end)
  | _, _ => acc
  end.
Fixpoint last_flag (ops : list iop) (obs : list icall) (acc : bool) : bool :=
  match ops, obs with
  | IEnsure _ :: ops', CRes f _ :: obs' => last_flag ops' obs' f
  | IEnsure _ :: ops', _ :: obs' => last_flag ops' obs' false
  | _ :: ops', _ :: obs' => last_flag ops' obs' acc
  | _, _ => acc
  end.

(* third identical call in a row must report done without changing anything *)
Fixpoint fixed_point_ok (ops : list iop) (obs : list icall) : bool :=
  match ops, obs with
  | a :: ((b :: c :: _) as ops'), _ :: ((ob :: oc :: _) as obs') =>
    (if op_eqb a b && op_eqb b c then
       match a, ob, oc with
       | IEnsure _, CRes _ sb, CRes fc sc => fc && opt_eqb ingress_eqb sb sc
       | IEnsure _, CErr, CErr => true
       | IEnsure _, CPanic, _ | IEnsure _, _, CPanic => true      (* judged by C14_no_panic *)
       | IEnsure _, _, _ => false
       | IFinalise, _, _ => true
       end else true) && fixed_point_ok ops' obs'
  | _, _ => true
  end.

Fixpoint after_finalise_ok (ops : list iop) (obs : list icall) : bool :=
  match ops, obs with
  | IFinalise :: ops', CRes _ c :: obs' => (match c with None => true | Some _ => false end) && after_finalise_ok ops' obs'
  | _ :: ops', _ :: obs' => after_finalise_ok ops' obs'
  | _, _ => true
  end.

(* regions of known findings *)
Definition f25_region (g : icase) : bool :=   (* a rule without http section, or a path whose backend is not a Service *)
  existsb (fun r => match ir_http r with None => true | Some ps => existsb (fun p => match ip_svc p with None => true | Some _ => false end) ps end)
          (in_rules (ic_ingress g)).

Definition judge (g : case) : list verdict :=
  [ (if corresponds g None (ic_ops g) (ic_obs g) then VOk else VMismatch);
    clause "C14_no_panic" (negb (any_panic (ic_obs g)));
    clause "C14_stable_untouched" (ic_stable_unchanged g);
    clause "C14_paths_exact" (forallb (fun o => match o with CRes _ (Some c) => paths_exact g c | _ => true end) (ic_obs g));
    clause "C14_finalise_removes" (after_finalise_ok (ic_ops g) (ic_obs g));
    clause "C07_provider_fixed_point(ingress)" (fixed_point_ok (ic_ops g) (ic_obs g));
    clause "C14_history_independent"
      (match ic_fresh g, state_at_last_ensure (ic_ops g) (ic_obs g) None None with
       | Some fa, Some c => negb (last_flag (ic_ops g) (ic_obs g) false) || amap_eqb fa (in_annos c)
       | _, _ => true end);
    (if match ic_fresh g, model_fresh g with Some a, Some b => amap_eqb a b | None, _ => true | Some _, None => false end then VOk else VMismatch) ].

Definition tag (g : case) : string :=
  let nm := existsb (fun op => match op with IEnsure s => negb (Nat.eqb (List.length (is_matches s)) 0) | _ => false end) (ic_ops g) in
  let cls := match ic_class g with Nginx => "nginx" | Alb => "alb" | Higress => "higress" | Mse => "mse" end in
  (cls ++ (if nm then "+matches" else "+weights"))%string.
