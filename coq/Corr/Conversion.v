(* Correspondence and property oracles for the convert engine (C20). *)
From RV Require Export Base.Util Base.IntStr Model.Conversion.

Inductive obs (A : Type) := OVal (a : A) | OPanic | OErr | ONone.
Arguments OVal {A} _. Arguments OPanic {A}. Arguments OErr {A}. Arguments ONone {A}.

Inductive ccase :=
  | CRolloutAlpha (a : alpha_rollout) (o1 : obs beta_rollout) (o2 : obs alpha_rollout)
  | CRolloutBeta (b : beta_rollout) (o1 : obs alpha_rollout) (o2 : obs beta_rollout)
  | CBRAlpha (a : alpha_br) (o1 : obs beta_br) (o2 : obs alpha_br).
Definition case := ccase.

(* structural equality of the projections *)
Definition alpha_step_eqb (x y : alpha_step) : bool :=
  oz_eqb (as_weight x) (as_weight y) && oios_eqb (as_replicas x) (as_replicas y) && oz_eqb (as_pause x) (as_pause y) &&
  String.eqb (as_hdrmod x) (as_hdrmod y) && list_eqb String.eqb (as_matches x) (as_matches y).
Definition alpha_canary_eqb (c d : alpha_canary) : bool :=
  list_eqb alpha_step_eqb (ac_steps c) (ac_steps d) && list_eqb String.eqb (ac_trs c) (ac_trs d) &&
  oios_eqb (ac_ft c) (ac_ft d) && patch_eqb (ac_patch c) (ac_patch d).
Definition alpha_eqb (x y : alpha_rollout) : bool :=
  ostr_eqb (a_style x) (a_style y) && ostr_eqb (a_trref x) (a_trref y) && opt_eqb wref_eqb (a_wref x) (a_wref y) &&
  Bool.eqb (a_disabled x) (a_disabled y) && Bool.eqb (a_paused x) (a_paused y) &&
  opt_eqb alpha_canary_eqb (a_canary x) (a_canary y) && status_eqb (a_status x) (a_status y).
Definition beta_step_eqb (x y : beta_step) : bool :=
  ostr_eqb (bs_traffic x) (bs_traffic y) && oios_eqb (bs_replicas x) (bs_replicas y) && oz_eqb (bs_pause x) (bs_pause y) &&
  String.eqb (bs_hdrmod x) (bs_hdrmod y) &&
  list_eqb (fun p q => String.eqb (fst p) (fst q) && String.eqb (snd p) (snd q)) (bs_matches x) (bs_matches y).
Definition beta_canary_eqb (c d : beta_canary) : bool :=
  list_eqb beta_step_eqb (bc_steps c) (bc_steps d) && list_eqb String.eqb (bc_trs c) (bc_trs d) &&
  oios_eqb (bc_ft c) (bc_ft d) && patch_eqb (bc_patch c) (bc_patch d) && Bool.eqb (bc_extra c) (bc_extra d) &&
  String.eqb (bc_trref c) (bc_trref d) && Bool.eqb (bc_nosvc c) (bc_nosvc d).
Definition beta_eqb (x y : beta_rollout) : bool :=
  ostr_eqb (b_style x) (b_style y) && ostr_eqb (b_trref x) (b_trref y) && wref_eqb (b_wref x) (b_wref y) &&
  Bool.eqb (b_disabled x) (b_disabled y) && Bool.eqb (b_paused x) (b_paused y) &&
  opt_eqb beta_canary_eqb (b_canary x) (b_canary y) && Bool.eqb (b_bluegreen x) (b_bluegreen y) &&
  status_eqb (b_status x) (b_status y) && Bool.eqb (b_bgstatus x) (b_bgstatus y).
Definition abr_eqb (x y : alpha_br) : bool :=
  ostr_eqb (ab_style x) (ab_style y) && opt_eqb wref_eqb (ab_wref x) (ab_wref y) && String.eqb (ab_plan x) (ab_plan y) &&
  String.eqb (ab_rolling x) (ab_rolling y) && Bool.eqb (ab_extra x) (ab_extra y) && String.eqb (ab_status x) (ab_status y).
Definition bbr_eqb (x y : beta_br) : bool :=
  ostr_eqb (bb_style x) (bb_style y) && wref_eqb (bb_wref x) (bb_wref y) && String.eqb (bb_plan x) (bb_plan y) &&
  String.eqb (bb_rolling x) (bb_rolling y) && Bool.eqb (bb_extra x) (bb_extra y) && String.eqb (bb_status x) (bb_status y).

Definition agree {A} (e : A -> A -> bool) (m : outcome A) (o : obs A) : bool :=
  match m, o with
  | Ok x, OVal y => e x y
  | Panic, OPanic => true
  | _, _ => false
  end.

Definition corresponds (c : ccase) : bool :=
  match c with
  | CRolloutAlpha a o1 o2 =>
    agree beta_eqb (rollout_to_beta a) o1 &&
    match o1 with OVal b => agree alpha_eqb (rollout_to_alpha b) o2 | _ => true end
  | CRolloutBeta b o1 o2 =>
    agree alpha_eqb (rollout_to_alpha b) o1 &&
    match o1 with OVal a => agree beta_eqb (rollout_to_beta a) o2 | _ => true end
  | CBRAlpha a o1 o2 =>
    agree bbr_eqb (br_to_beta a) o1 &&
    match o1 with OVal b => agree abr_eqb (Ok (br_to_alpha b)) o2 | _ => true end
  end.

Definition is_val {A} (o : obs A) : bool := match o with OVal _ => true | _ => false end.

(* v1beta1 canary-strategy object restricted to what v1alpha1 can express *)
Definition valid_traffic (t : string) : bool :=
  has_suffix t "%" && match atoi (substring 0 (String.length t - 1) t) with
                      | Some p => (0 <=? p) && (p <=? 100) && String.eqb t (pct_string p) | None => false end.
Definition beta_expressible (b : beta_rollout) : bool :=
  negb (b_bluegreen b) && negb (b_bgstatus b) &&
  match b_canary b with
  | None => false
  | Some c => negb (bc_nosvc c) &&
              (* the v1alpha1-only trafficrouting annotation, if the metadata carries one, agrees with the field *)
              (negb (sempty (bc_trref c)) || sempty (match b_trref b with Some t => t | None => "" end)) &&
              forallb (fun s => match bs_traffic s with Some t => valid_traffic t | None => true end &&
                                forallb (fun m => sempty (snd m)) (bs_matches s)) (bc_steps c)
  end.
(* read-modify-write through v1alpha1: equal up to (a) the two style/trafficrouting annotations that
   v1alpha1 materialises and (b) a step with traffic but no replicas, which v1alpha1 reads as replicas = traffic *)
Definition beta_step_rmw (x y : beta_step) : bool :=
  ostr_eqb (bs_traffic x) (bs_traffic y) &&
  oios_eqb (match bs_replicas x, bs_traffic x with None, Some t => Some (IPct (weight_of_traffic t)) | r, _ => r end) (bs_replicas y) &&
  oz_eqb (bs_pause x) (bs_pause y) && String.eqb (bs_hdrmod x) (bs_hdrmod y) &&
  list_eqb (fun p q => String.eqb (fst p) (fst q) && String.eqb (snd p) (snd q)) (bs_matches x) (bs_matches y).
Definition beta_rmw (x y : beta_rollout) : bool :=
  wref_eqb (b_wref x) (b_wref y) && Bool.eqb (b_disabled x) (b_disabled y) && Bool.eqb (b_paused x) (b_paused y) &&
  opt_eqb (fun c d => list_eqb beta_step_rmw (bc_steps c) (bc_steps d) && list_eqb String.eqb (bc_trs c) (bc_trs d) &&
                      oios_eqb (bc_ft c) (bc_ft d) && patch_eqb (bc_patch c) (bc_patch d) && Bool.eqb (bc_extra c) (bc_extra d) &&
                      String.eqb (bc_trref c) (bc_trref d) && Bool.eqb (bc_nosvc c) (bc_nosvc d)) (b_canary x) (b_canary y) &&
  status_eqb (b_status x) (b_status y).

(* known-finding regions *)
Definition f10_rollout_alpha (a : alpha_rollout) : bool := match a_wref a, a_canary a with Some _, Some _ => false | _, _ => true end.
Definition f10_rollout_beta (b : beta_rollout) : bool := negb (b_bluegreen b) && match b_canary b with None => true | Some _ => false end.
Definition f10_br (a : alpha_br) : bool := match ab_wref a with None => true | Some _ => false end.
(* F24: v1alpha1 BatchRelease whose spec.releasePlan.rollingStyle is not mirrored by the annotation *)
Definition f24_region (a : alpha_br) : bool := negb (String.eqb (style_class (ab_style a)) (ab_rolling a)).

Definition judge (c : case) : list verdict :=
  (if corresponds c then VOk else VMismatch) ::
  match c with
  | CRolloutAlpha a o1 o2 =>
    [ clause "C20_total(Rollout v1alpha1->v1beta1)" (is_val o1);
      (match o1 with OVal _ => clause "C20_total(Rollout back to v1alpha1)" (is_val o2) | _ => VOk end);
      (match o2 with OVal a' => clause "C20_alpha_roundtrip(Rollout)" (alpha_same a a') | _ => VOk end) ]
  | CRolloutBeta b o1 o2 =>
    [ clause "C20_total(Rollout v1beta1->v1alpha1)" (is_val o1);
      (match o1, o2 with
       | OVal _, OVal b' => if beta_expressible b then clause "C20_beta_rmw" (beta_rmw b b') else VOk
       | OVal _, _ => if beta_expressible b then clause "C20_total(Rollout v1beta1 rmw)" false else VOk
       | _, _ => VOk end) ]
  | CBRAlpha a o1 o2 =>
    [ clause "C20_total(BatchRelease v1alpha1->v1beta1)" (is_val o1);
      (match o2 with OVal a' => clause "C20_alpha_roundtrip(BatchRelease)" (br_same a a') | _ => VOk end) ]
  end.

Definition tag (c : case) : string :=
  match c with
  | CRolloutAlpha a _ _ => if f10_rollout_alpha a then "rollout-alpha-nil-block" else "rollout-alpha"
  | CRolloutBeta b _ _ => if beta_expressible b then "rollout-beta-expressible" else "rollout-beta-other"
  | CBRAlpha a _ _ => if f10_br a then "br-alpha-nil-ref" else "br-alpha"
  end.
