(* Correspondence and property oracle for the bgfinal engine (C11: Completed only when every pod is updated and ready, on
   every attempt). *)
From RV Require Export Base.Util Base.IntStr Model.BGFinal.

Record bgf_in := { bi_n : Z; bi_restored : bool; bi_paused : bool; bi_max_surge : Z; bi_max_unavail : Z; bi_partitioned : bool; bi_statuses : list dstatus }.
Record attempt_obs := { ao_panic : bool; ao_err : bool; ao_retry : bool; ao_paused : bool; ao_restored : bool; ao_released : bool }.
Definition case := (bgf_in * list attempt_obs)%type.

Definition start (i : bgf_in) : bgdep :=
  {| bd_n := bi_n i; bd_restored := bi_restored i; bd_paused := bi_paused i; bd_max_surge := bi_max_surge i; bd_max_unavail := bi_max_unavail i;
     bd_released := bi_restored i; bd_status := {| ds_replicas := 0; ds_updated := 0; ds_ready := 0; ds_available := 0 |} |}.

Definition attempt_matches (m : fin_result * bgdep) (o : attempt_obs) : bool :=
  negb (ao_panic o) &&
  match fst m with
  | FinDone => negb (ao_err o)
  | FinRetry => ao_err o && ao_retry o
  | FinError => ao_err o && negb (ao_retry o)
  end &&
  Bool.eqb (bd_paused (snd m)) (ao_paused o) && Bool.eqb (bd_restored (snd m)) (ao_restored o) && Bool.eqb (bd_released (snd m)) (ao_released o).

Fixpoint all_match (ms : list (fin_result * bgdep)) (os : list attempt_obs) : bool :=
  match ms, os with
  | [], [] => true
  | m :: ms', o :: os' => attempt_matches m o && all_match ms' os'
  | _, _ => false
  end.
Definition corresponds (c : case) : bool :=
  let '(i, os) := c in all_match (attempts (bi_partitioned i) (start i) (bi_statuses i)) os.

(* the property on what the implementation did: an attempt that reports success (Finalize returns nil, the executor then
   records Completed) saw every pod updated and ready -- judged on the status the harness had written for that attempt
   and on the Deployment as that attempt left it.  [only_first]: judge only attempts that started on a Deployment that was
   not yet restored (the others are the region of known finding F6) *)
Fixpoint done_means_ready (i : bgf_in) (only_first : bool) (restored_before : bool) (sts : list dstatus) (os : list attempt_obs) : bool :=
  match sts, os with
  | s :: sts', o :: os' =>
    (if negb (ao_err o) && negb (ao_panic o) && negb (only_first && restored_before)
     then all_updated_and_ready {| bd_n := bi_n i; bd_restored := ao_restored o; bd_paused := ao_paused o; bd_max_surge := bi_max_surge i;
                                   bd_max_unavail := bi_max_unavail i; bd_released := ao_released o; bd_status := s |}
     else true) && done_means_ready i only_first (ao_restored o) sts' os'
  | _, _ => true
  end.

Definition judge (c : case) : list verdict :=
  let '(i, os) := c in
  [ if corresponds c then VOk else VMismatch;
    clause "C09_bluegreen_finalize_no_panic" (forallb (fun o => negb (ao_panic o)) os);
    clause "C11_completed_means_all_updated_and_ready(restoring attempt)"
      (bi_partitioned i || done_means_ready i true (bi_restored i) (bi_statuses i) os);
    (* F6: a retry on an already restored Deployment reports done without looking at the pods *)
    clause_known "C11_completed_means_all_updated_and_ready_on_every_attempt" "C11:F6" (corresponds c)
      (bi_partitioned i || done_means_ready i false (bi_restored i) (bi_statuses i) os) ].

Definition tag (c : case) : string :=
  let '(i, os) := c in
  if bi_partitioned i then "partitioned" else
  if existsb (fun o => negb (ao_err o)) os then "some-attempt-done" else "never-done".
