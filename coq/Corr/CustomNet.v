(* Correspondence and property oracles for the custom engine (C15). *)
From RV Require Export Base.Util Model.CustomNet.

Inductive cres := RFlag (b : bool) | RErr | RPanic.
Record cstep := { cs_res : cres; cs_writes : Z; cs_objs : list (option obj) }.
(* one independent evaluation of a reference's script by the harness *)
Record oentry := { oe_ref : Z; oe_data : data; oe_strategy : Z; oe_result : option data }.
Record ccase := { cc_initial : list (option obj); cc_ops : list (@op Z); cc_steps : list cstep; cc_oracle : list oentry }.
Definition case := ccase.

(* the script parameter of the model, instantiated by the oracle table *)
Definition table_script (t : list oentry) (i : nat) (d : data) (s : Z) : option data :=
  match find (fun e => (oe_ref e =? Z.of_nat i) && data_eqb (oe_data e) d && (oe_strategy e =? s)) t with
  | Some e => oe_result e
  | None => None
  end.

Definition snap_eqb (a b : snap) : bool :=
  match a, b with SAbsent, SAbsent | SEmpty, SEmpty => true | SData x, SData y => data_eqb x y | _, _ => false end.
Definition obj_eqb (a b : obj) : bool :=
  opt_eqb String.eqb (o_spec a) (o_spec b) && omap_eqb (o_labels a) (o_labels b) && omap_eqb (o_annos a) (o_annos b) && snap_eqb (o_snap a) (o_snap b).
Definition objs_eqb := list_eqb (opt_eqb obj_eqb).

Definition model_step (t : list oentry) (l : list (option obj)) (o : @op Z) : cstep :=
  match o with
  | OEnsure s => let '(l', r, w) := ensure (table_script t) l s in
                 {| cs_res := match r with EDone b => RFlag b | EErr => RErr end; cs_writes := w; cs_objs := l' |}
  | OFinalise => let '(l', m) := finalise l in
                 {| cs_res := RFlag m; cs_writes := count (fun x => x) (map (fun x => match x with Some o => snd (restore o) | None => false end) l); cs_objs := l' |}
  end.
Definition cres_eqb (a b : cres) : bool :=
  match a, b with RFlag x, RFlag y => Bool.eqb x y | RErr, RErr | RPanic, RPanic => true | _, _ => false end.
Definition cstep_eqb (a b : cstep) : bool :=
  cres_eqb (cs_res a) (cs_res b) && (cs_writes a =? cs_writes b) && objs_eqb (cs_objs a) (cs_objs b).

(* the model is re-synchronised on the observed objects after every step, so one divergence is reported once *)
Fixpoint corresponds (t : list oentry) (l : list (option obj)) (ops : list (@op Z)) (obs : list cstep) : bool :=
  match ops, obs with
  | [], [] => true
  | o :: ops', s :: obs' => cstep_eqb (model_step t l o) s && corresponds t (cs_objs s) ops' obs'
  | _, _ => false
  end.

(* ---- the property on observed histories ---- *)

(* what an object must look like after a successful step s: the script's output for the stored ORIGINAL, nothing else *)
Definition shows (d : data) (o : obj) : bool :=
  opt_eqb String.eqb (o_spec o) (d_spec d) &&
  omap_eqb (o_annos o) (Some (match d_annos d with Some a => a | None => [] end)) && omap_eqb (o_labels o) (d_labels d).
(* equal up to nil/empty maps: what "restored exactly" means for a user *)
Definition same_user_config (a b : obj) : bool :=
  opt_eqb String.eqb (o_spec a) (o_spec b) && omap_eqb (omit_empty (o_labels a)) (omit_empty (o_labels b)) &&
  omap_eqb (omit_empty (o_annos a)) (omit_empty (o_annos b)).
Definition fresh (o : option obj) : bool := match o with Some x => match o_snap x with SAbsent => true | _ => false end | None => false end.

Fixpoint forall2b {A B} (f : A -> B -> bool) (a : list A) (b : list B) : bool :=
  match a, b with [] , [] => true | x :: a', y :: b' => f x y && forall2b f a' b' | _, _ => false end.
Fixpoint forall2i {A B} (f : nat -> A -> B -> bool) (i : nat) (a : list A) (b : list B) : bool :=
  match a, b with [] , [] => true | x :: a', y :: b' => f i x y && forall2i f (S i) a' b' | _, _ => false end.

(* stateless: after a successful ensure s every object shows script(original, s); originals are the objects as the user had them *)
Definition stateless_at (t : list oentry) (initial : list (option obj)) (s : Z) (now : list (option obj)) : bool :=
  forall2i (fun i o0 o1 =>
    match o0, o1 with
    | Some a, Some b => if fresh o0 then match table_script t i (snapshot_of a) s with Some d => shows d b | None => false end else true
    | _, _ => true
    end) 0 initial now.
Definition restored_at (initial now : list (option obj)) : bool :=
  forall2b (fun o0 o1 =>
    match o0, o1 with
    | Some a, Some b => if fresh o0 then same_user_config a b && match o_snap b with SAbsent => true | _ => false end else true
    | None, None => true
    | _, _ => false
    end) initial now.

Fixpoint history_ok (t : list oentry) (initial : list (option obj)) (prev : option Z) (ops : list (@op Z)) (obs : list cstep) : bool * bool * bool :=
  match ops, obs with
  | o :: ops', s :: obs' =>
    let '(a, b, c) :=
      match o, cs_res s with
      | OEnsure st, RFlag f =>
        (stateless_at t initial st (cs_objs s), true,
         match prev with Some p => if p =? st then f && (cs_writes s =? 0) else true | None => true end)
      | OFinalise, RFlag _ => (true, restored_at initial (cs_objs s), true)
      | _, _ => (true, true, true)
      end in
    let prev' := match o, cs_res s with OEnsure st, RFlag _ => Some st | _, _ => None end in
    let '(a', b', c') := history_ok t initial prev' ops' obs' in
    (a && a', b && b', c && c')
  | _, _ => (true, true, true)
  end.

Definition no_panic (obs : list cstep) : bool := forallb (fun s => match cs_res s with RPanic => false | _ => true end) obs.

Definition judge (c : case) : list verdict :=
  let '(a, b, n) := history_ok (cc_oracle c) (cc_initial c) None (cc_ops c) (cc_steps c) in
  [ if corresponds (cc_oracle c) (cc_initial c) (cc_ops c) (cc_steps c) then VOk else VMismatch;
    clause "C15_apply_is_stateless" a;
    clause "C15_restore_exact" b;
    (* C05: every exit path ends in Finalise; what it leaves is the user's resource, byte for byte, without the snapshot annotation *)
    clause "C05_custom_network_resource_back_to_the_users_configuration" b;
    clause "C15_no_noop_writes" n;
    clause "C15_no_panic" (no_panic (cc_steps c)) ].

Definition tag (c : case) : string :=
  let nref := zlen (cc_initial c) in
  let ens := count (fun s => match cs_res s with RFlag _ => true | _ => false end) (cc_steps c) in
  let errs := count (fun s => match cs_res s with RErr => true | _ => false end) (cc_steps c) in
  let fin := count (fun o => match o with OFinalise => true | _ => false end) (cc_ops c) in
  ((if (nref =? 1)%Z then "one-ref" else "multi-ref") ++ (if (0 <? errs)%Z then "/with-errors" else "/clean") ++ (if (0 <? fin)%Z then "/finalised" else "/open"))%string.
