(* Correspondence and property oracles for the deployctl engine (C17). *)
From RV Require Export Base.Util Base.IntStr Model.BatchArith Model.DeployCtl.

Record dobs := { do_panic : bool; do_err : bool; do_new : Z; do_olds : list Z }.
Definition case := (dstate * dobs)%type.

Definition after_of (d : dstate) (o : dobs) : dstate :=
  set_olds (set_new d (do_new o)) (map (fun ra => {| r_spec := snd ra; r_avail := r_avail (fst ra) |}) (combine (d_olds d) (do_olds o))).

Definition corresponds (c : case) : bool :=
  let '(d, o) := c in
  let d' := sync d in
  negb (do_panic o) && negb (do_err o) && (r_spec (d_new d') =? do_new o) && list_eqb Z.eqb (map r_spec (d_olds d')) (do_olds o).

Definition valid_ios (v : ios) : bool := match v with IInt z => 0 <=? z | IPct p => (0 <=? p) && (p <=? 100) | IBad => false end.
Definition in_domain (d : dstate) : bool :=
  wf_state d && valid_ios (d_partition d) &&
  match d_surge d with Some v => valid_ios v | None => true end && match d_unavail d with Some v => valid_ios v | None => true end.

Definition judge (c : case) : list verdict :=
  let '(d, o) := c in
  if negb (in_domain d) then [] else
  (if corresponds c then VOk else VMismatch) ::
  clause "C09_deployment_sync_no_panic" (negb (do_panic o)) ::
  (if do_panic o || do_err o || negb (Nat.eqb (List.length (do_olds o)) (List.length (d_olds d))) then [] else
   let d' := after_of d o in
   [ clause "C17_new_within_partition" (p_new_within_partition d d');
     clause "C17_old_not_below_reserve" (p_old_not_below_reserve d d');
     clause "C17_total_within_surge" (p_total_within_surge d d');
     clause "C17_availability_budget" (p_availability_budget d d');
     clause "C17_progress_at_full_partition" (p_progress_at_full_partition d d') ]).

Definition tag (c : case) : string :=
  let '(d, o) := c in
  let d' := sync d in
  if d_new_oldest d && negb (r_spec (d_new d') =? r_spec (d_new d)) && (r_spec (d_new d') <? r_spec (d_new d)) then "new-scaled-DOWN" else
  if negb (r_spec (d_new d') =? r_spec (d_new d)) then "new-scaled"
  else if negb (list_eqb Z.eqb (map r_spec (d_olds d')) (map r_spec (d_olds d))) then
         (if sumspec (d_olds d') <? sumspec (d_olds d) then "old-scaled-down" else "old-scaled-up")
  else "no-change".
