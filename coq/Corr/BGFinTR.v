(* Correspondence and property oracles for the bgfintr engine: one real reconcile of a BLUE-GREEN Rollout with traffic
   routing in one of its finalising phases (success, rollback, deleted, disabled), from any persisted cursor, network state
   and in-memory grace state. *)
From RV Require Export Base.Util Base.IntStr Model.RolloutSM Model.TrafficMgr Model.RolloutTR Model.RolloutBG Model.BGFinTR
  Corr.RolloutSM Corr.TrafficMgr Corr.RolloutTR.

Definition case := trcase.

Definition model_bg (c : case) : option tr_res :=
  let i := x_inner c in
  if x_wl_read_fails c then match bg_exit (rc_spec i) (rc_status i) with Some _ => Some (read_failed c) | None => None end
  else reconcile_bgtr (tspec c) (rc_status i) (rc_wl i) (rc_br i) (x_net c) (x_pending c).

Definition corresponds_bgtr (c : case) : bool :=
  let i := x_inner c in let o := rc_obs i in
  match model_bg c with
  | None => true
  | Some TrPanic => ob_panic o
  | Some (TrOut r) =>
    let m := t_out r in
    negb (ob_panic o) && (negb (o_finalizer m) || Bool.eqb (o_err m) (ob_err o)) &&
    (if o_finalizer m then negb (ob_gone o) && ob_finalizer o else (ob_gone o || negb (ob_finalizer o))) &&
    (ob_gone o || status_matches (rc_spec i) (match o_status m with Some s => s | None => rc_status i end) (ob_status o)) &&
    opt_eqb br_eqb (o_br m) (ob_br o) &&
    Bool.eqb (wl_exists (rc_wl i) && wl_in_progress (rc_wl i) && negb (o_remove_progress_anno m)) (ob_anno o) &&
    (o_err m || Bool.eqb (o_requeue m) (ob_requeue o)) &&
    list_eqb String.eqb (write_names (x_net c) (t_writes r)) (x_obs_writes c) &&
    net_eqb (apply_writes (x_net c) (t_writes r)) (x_obs_net c) &&
    same_actions (t_graces r) (x_obs_pending c)
  end.

(* the blue-green orders *)
Fixpoint pos_in (f : ftask) (l : list ftask) (i : nat) : option nat :=
  match l with [] => None | x :: l' => if ftask_eqb x f then Some i else pos_in f l' (S i) end.
Definition passed_bg (r : freason) (T f : ftask) : bool :=
  match f with
  | FtEnd => true
  | _ => match pos_in T (bg_tasks r) O, pos_in f (bg_tasks r) O with Some i, Some j => Nat.ltb i j | _, _ => false end
  end.
(* the invariant of a blue-green finalising phase: no route without its Service; behind RouteTrafficToStable the route is
   gone; behind RemoveCanaryService the Service is gone; behind RestoreStableService the stable Service is un-pinned *)
Definition finv_bg (r : freason) (u : sub) (n : net) : bool :=
  route_behind_service n &&
  implb (passed_bg r FtRouteStable (su_fin u)) (route_gone n) &&
  implb (passed_bg r FtRemoveCanarySvc (su_fin u)) (match n_canary_svc n with None => true | Some _ => false end) &&
  implb (passed_bg r FtRestoreStable (su_fin u) && n_stable_exists n) (unpinned_b n).

(* C10 (blue-green rollback): a reconcile of the cancellation sequence that patches / deletes the BatchRelease -- the new pods
   go, the workload is handed back -- starts from a network without canary route and writes nothing to it *)
Definition c10_bg_rollback_traffic_first (c : case) : bool :=
  let i := x_inner c in let o := rc_obs i in
  match rp_phase (rc_status i), rp_prog (rc_status i), rp_sub (rc_status i) with
  | RpProgressing, Some (PrCancelling, _, _), Some u =>
    if finv_bg FrRollback u (x_net c) && wl_exists (rc_wl i) && wl_consistent (rc_wl i) && negb (rs_deleting (rc_spec i)) && negb (ob_gone o) &&
       negb (opt_eqb br_eqb (rc_br i) (ob_br o))
    then route_gone (x_net c) && match x_obs_writes c with [] => true | _ => false end else true
  | _, _, _ => true
  end.
(* ... and every reconcile of an exit sequence keeps the invariant that hypothesis speaks about: the cursor passes
   RouteTrafficToStable only once the route is really gone, whatever the step the release had reached *)
Definition c_bg_invariant_kept (c : case) : bool :=
  let i := x_inner c in let o := rc_obs i in
  match finalising_reason (rc_status i), rp_sub (rc_status i) with
  | Some r, Some u =>
    if finv_bg r u (x_net c) && wl_exists (rc_wl i) && wl_consistent (rc_wl i) && negb (ob_gone o) then
      match finalising_reason (ob_status o), rp_sub (ob_status o) with
      | Some r', Some v => if freason_eqb r r' then finv_bg r' v (x_obs_net c) else true
      | _, _ => route_behind_service (x_obs_net c)
      end
    else true
  | _, _ => true
  end.

Definition in_scope (c : case) : bool :=
  match bg_exit (rc_spec (x_inner c)) (rc_status (x_inner c)) with Some _ => true | None => false end.

Definition judge (c : case) : list verdict :=
  if negb (in_scope c) then [] else
  [ if corresponds_bgtr c then VOk else VMismatch;
    clause "C10_bluegreen_rollback_touches_workload_only_after_traffic_is_back" (c10_bg_rollback_traffic_first c);
    clause "C10_bluegreen_cancellation_keeps_the_traffic_invariant"
      (match finalising_reason (rc_status (x_inner c)) with Some FrRollback => c_bg_invariant_kept c | _ => true end);
    (* success: routing everything to the new version first must not route into a void either *)
    clause "C04_bluegreen_success_keeps_the_traffic_invariant"
      (match finalising_reason (rc_status (x_inner c)) with Some FrSuccess => c_bg_invariant_kept c | _ => true end);
    clause "C04_bluegreen_exit_keeps_the_traffic_invariant"
      (match finalising_reason (rc_status (x_inner c)) with Some FrDelete | Some FrDisabled => c_bg_invariant_kept c | _ => true end) ].

Definition tag (c : case) : string :=
  (match finalising_reason (rc_status (x_inner c)) with
   | Some FrSuccess => "success" | Some FrRollback => "rollback" | Some FrDelete => "delete" | Some FrDisabled => "disabled" | _ => "other" end ++
   match x_obs_writes c with [] => "/no-network-write" | _ => "/network-write" end)%string.
