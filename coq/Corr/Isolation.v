(* Correspondence and property oracles for the isolation engine (C19). *)
From RV Require Export Base.Util Model.GraceMap Model.Expect.

Inductive icase :=
| IGrace (ops : list gop) (obs : list (option bool))
         (alone : list (list string * list bool))   (* per owner: its controller keys, and the answers the real store gave when only its calls ran *)
         (panicked : bool)
| IGracePar (pairs : list (list bool * list bool)) (panicked : bool)   (* per owner: answers alone / with all owners on concurrent goroutines *)
| IExpect (ops : list eop) (obs : list (option bool)) (alone : list (list string * list bool)) (panicked : bool)
| IWatch (ops : list (string * bool)) (obs : list string) (panicked : bool)   (* per reconcile: "proceed" | "watched-now" | "error" *)
| IParK (what : string) (pairs : list (string * string)) (panicked : bool)   (* like IPar, for another piece of process-wide state *)
| IPar (pairs : list (string * string)) (panicked : bool).   (* per rollout: digest of its objects after running alone / concurrently with the others *)
Definition case := icase.

Definition owner_keys (keys : list string) (k : gkey) : bool := existsb (String.eqb (fst k)) keys.

(* the answers an owner got in the observed interleaved run *)
Fixpoint observed_answers (mine : gkey -> bool) (ops : list gop) (obs : list (option bool)) : list bool :=
  match ops, obs with
  | GCall c :: t, Some b :: o => if mine (gc_key c) then b :: observed_answers mine t o else observed_answers mine t o
  | _ :: t, _ :: o => observed_answers mine t o
  | _, _ => []
  end.

Fixpoint erun (s : estore) (ops : list eop) : list (option bool) :=
  match ops with [] => [] | o :: t => let '(s', a) := estep s o in a :: erun s' t end.
Fixpoint observed_eanswers (mine : string -> bool) (ops : list eop) (obs : list (option bool)) : list bool :=
  match ops, obs with
  | ESatisfied k :: t, Some b :: o => if mine k then b :: observed_eanswers mine t o else observed_eanswers mine t o
  | _ :: t, _ :: o => observed_eanswers mine t o
  | _, _ => []
  end.

Definition judge (c : case) : list verdict :=
  match c with
  | IGrace ops obs alone p =>
    [ if list_eqb (opt_eqb Bool.eqb) (grun [] ops) obs && negb p then VOk else VMismatch;
      (* on the real store: every owner got, interleaved with the others, the answers it got alone *)
      clause "C19_grace_answers_as_alone" (forallb (fun a => list_eqb Bool.eqb (observed_answers (owner_keys (fst a)) ops obs) (snd a)) alone) ]
  | IGracePar pairs p =>
    [ clause "C19_grace_answers_as_alone" (forallb (fun x => list_eqb Bool.eqb (fst x) (snd x)) pairs); clause "C19_no_panic" (negb p) ]
  | IExpect ops obs alone p =>
    [ if list_eqb (opt_eqb Bool.eqb) (erun eempty ops) obs && negb p then VOk else VMismatch;
      clause "C19_creation_expectations_as_alone"
        (forallb (fun a => list_eqb Bool.eqb (observed_eanswers (fun k => existsb (String.eqb k) (fst a)) ops obs) (snd a)) alone) ]
  | IWatch ops obs p =>
    let names := map (fun r => match r with WProceed => "proceed" | WWatchedNow => "watched-now" | WError => "error" end) (watch_run [] ops) in
    [ if list_eqb String.eqb names obs && negb p then VOk else VMismatch;
      (* a reconcile proceeds without registering a watch only if a watch for its type was registered successfully before *)
      clause "C19_no_rollout_runs_without_its_workload_watch"
        ((fix go (seen : list string) (ops : list (string * bool)) (obs : list string) : bool :=
            match ops, obs with
            | (g, ok) :: t, o :: t' =>
              (negb (String.eqb o "proceed") || existsb (String.eqb g) seen) &&
              go (if String.eqb o "watched-now" then g :: seen else seen) t t'
            | _, _ => true end) [] ops obs);
      clause "C19_no_panic" (negb p) ]
  | IParK what pairs p =>
    [ clause ("C19_same_as_alone_" ++ what) (forallb (fun x => String.eqb (fst x) (snd x)) pairs); clause "C19_no_panic" (negb p) ]
  | IPar pairs p =>
    [ clause "C19_same_final_state_as_alone" (forallb (fun x => String.eqb (fst x) (snd x)) pairs);
      clause "C19_no_panic" (negb p) ]
  end.

Definition tag (c : case) : string :=
  match c with
  | IGrace _ _ alone _ => if (zlen alone <=? 2)%Z then "grace/2-owners" else "grace/3-owners"
  | IGracePar _ _ => "grace/concurrent"
  | IExpect _ _ _ _ => "expectations/store"
  | IWatch _ _ _ => "watch-registry"
  | IParK what _ _ => "parallel/" ++ what
  | IPar pairs _ => if (zlen pairs <=? 2)%Z then "parallel/2-rollouts" else "parallel/3-rollouts"
  end.
