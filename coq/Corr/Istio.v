(* Correspondence and property oracles for the istio engine (C15, built-in scripts). *)
From RV Require Export Base.Util Model.Istio.

Record icase := {
  i_stable : string; i_canary : string; i_weight : Z (* -1 = none *); i_nmatches : Z;
  i_spec : vspec; i_obs : option vspec;                      (* VirtualService through the real provider *)
  i_subsets : option (list string); i_obs_subsets : option (list string)   (* DestinationRule subsets (names) *)
}.
Definition case := icase.

Definition route_eqb (a b : route) : bool :=
  String.eqb (rt_host a) (rt_host b) && String.eqb (rt_subset a) (rt_subset b) && opt_eqb Z.eqb (rt_weight a) (rt_weight b) && String.eqb (rt_rest a) (rt_rest b).
Definition vrule_eqb (a b : vrule) : bool :=
  Bool.eqb (vr_match a) (vr_match b) && list_eqb route_eqb (vr_routes a) (vr_routes b) && String.eqb (vr_rest a) (vr_rest b).
(* generated match rules: content of match/headers is not modelled *)
Definition vrule_shape_eqb (a b : vrule) : bool := Bool.eqb (vr_match a) (vr_match b) && list_eqb route_eqb (vr_routes a) (vr_routes b).
Fixpoint rules_eqb (k : nat) (a b : list vrule) : bool :=
  match a, b with
  | [], [] => true
  | x :: a', y :: b' => (match k with O => vrule_eqb x y | S _ => vrule_shape_eqb x y end) && rules_eqb (pred k) a' b'
  | _, _ => false
  end.
Definition vspec_eqb (k : nat) (a b : vspec) : bool :=
  opt_eqb (rules_eqb k) (vs_http a) (vs_http b) && opt_eqb (rules_eqb 0) (vs_tcp a) (vs_tcp b) && opt_eqb (rules_eqb 0) (vs_tls a) (vs_tls b) &&
  String.eqb (vs_rest a) (vs_rest b).

Definition weights (w : Z) : Z * Z := if w =? -1 then (0, 100) else (100 - w, w).   (* stable, canary *)

(* a rule whose only destination is the stable service, carrying all of the rule's traffic *)
Definition single_stable (stable : string) (r : vrule) : option route :=
  if vr_match r then None else
  match vr_routes r with
  | [rt] => if String.eqb (host_of rt) stable && (match rt_weight rt with None | Some 100 => true | _ => false end) then Some rt else None
  | _ => None
  end.
Definition split_ok (stable canary : string) (w : Z) (before after : vrule) : bool :=
  match single_stable stable before with
  | Some rt =>
    let '(sw, cw) := weights w in
    list_eqb route_eqb (vr_routes after)
      [ {| rt_host := rt_host rt; rt_subset := rt_subset rt; rt_weight := Some sw; rt_rest := rt_rest rt |}; canary_route stable canary cw ] &&
    Bool.eqb (vr_match after) false && String.eqb (vr_rest after) (vr_rest before)
  | None => true
  end.
(* rules that are not about the stable service, or carry a match, are left exactly as they were *)
Definition untouched_ok (stable : string) (before after : vrule) : bool :=
  if vr_match before || negb (existsb (fun rt => String.eqb (host_of rt) stable) (vr_routes before)) then vrule_eqb before after else true.

Fixpoint forall2b {A B} (f : A -> B -> bool) (a : list A) (b : list B) : bool :=
  match a, b with [] , [] => true | x :: a', y :: b' => f x y && forall2b f a' b' | _, _ => false end.
Definition per_rule (f : vrule -> vrule -> bool) (a b : option (list vrule)) : bool :=
  match a, b with Some x, Some y => forall2b f x y | None, None => true | _, _ => false end.
Definition on_spec (f : vrule -> vrule -> bool) (a b : vspec) : bool :=
  per_rule f (vs_http a) (vs_http b) && per_rule f (vs_tcp a) (vs_tcp b) && per_rule f (vs_tls a) (vs_tls b).

Definition split_holds (stable canary : string) (w : Z) (before : vspec) (after : option vspec) : bool :=
  match after with Some a => on_spec (split_ok stable canary w) before a | None => false end.
Definition untouched_holds (stable : string) (before : vspec) (after : option vspec) : bool :=
  match after with Some a => on_spec (untouched_ok stable) before a | None => false end.
(* on the matches path every rule the user had is still there, unchanged, after the generated ones *)
Definition originals_kept (n : nat) (before : vspec) (after : option vspec) : bool :=
  match after, vs_http before with
  | Some a, Some l => opt_eqb (rules_eqb 0) (Some l) (match vs_http a with Some la => Some (skipn n la) | None => None end) &&
                      opt_eqb (rules_eqb 0) (vs_tcp before) (vs_tcp a) && opt_eqb (rules_eqb 0) (vs_tls before) (vs_tls a)
  | None, None => true
  | _, _ => false
  end.

Definition judge (c : case) : list verdict :=
  let n := Z.to_nat (i_nmatches c) in
  let m := virtual_service (i_stable c) (i_canary c) (i_weight c) n (i_spec c) in
  [ if opt_eqb (vspec_eqb n) m (i_obs c) && opt_eqb (list_eqb String.eqb) (destination_rule (i_subsets c)) (i_obs_subsets c) then VOk else VMismatch;
    clause "C15_istio_split" (match n with O => split_holds (i_stable c) (i_canary c) (i_weight c) (i_spec c) (i_obs c) | _ => true end);
    clause "C15_istio_others_untouched"
      (match n with O => untouched_holds (i_stable c) (i_spec c) (i_obs c) | _ => originals_kept n (i_spec c) (i_obs c) end) ].

Definition tag (c : case) : string :=
  let rules := match vs_http (i_spec c) with Some l => l | None => [] end in
  ((if (i_nmatches c =? 0)%Z then "weight" else "matches") ++
   (if existsb (fun r => match single_stable (i_stable c) r with Some _ => true | None => false end) rules then "/single-stable" else "/no-single-stable") ++
   (if existsb (fun r => (1 <? Z.of_nat (visits (i_stable c) r))%Z) rules then "/multi-stable" else ""))%string.
