(* Correspondence and property oracles for the ctlplane engine (C05 / C06 / C09 / C11: workload control planes). *)
From RV Require Export Base.Util Base.IntStr Model.CtlPlane.

Inductive cp_op := OpInit | OpFinalize.
Inductive cp_state := SPdep (d : pdep) | SCdep (d : cdep).
Record cp_in := { ci_op : cp_op; ci_partitioned : bool; ci_wait_resume : bool; ci_fault : fault; ci_state : cp_state;
                  ci_stable_gone : bool (* canary style, Finalize: the stable Deployment does not exist any more *) }.
Definition cfinalize (i : cp_in) (d : cdep) : outcome * cdep :=
  if ci_stable_gone i then cdep_finalize_gone (ci_fault i) d else cdep_finalize (ci_partitioned i) (ci_wait_resume i) (ci_fault i) d.
Record cp_obs := { co_panic : bool; co_err : bool; co_claimed : bool; co_paused : bool; co_recreate : bool; co_strategy_anno : bool; co_label : bool;
                   co_canaries : list bool; co_created_ok : bool }.
Definition case := (cp_in * cp_obs)%type.

Definition outcome_matches (m : outcome) (o : cp_obs) : bool := match m with Done => negb (co_err o) | Failed => co_err o end.

Definition corresponds (c : case) : bool :=
  let '(i, o) := c in
  negb (co_panic o) &&
  match ci_state i with
  | SPdep d =>
    let '(m, d') := match ci_op i with OpInit => pdep_initialize (ci_fault i) d | OpFinalize => pdep_finalize (ci_partitioned i) (ci_fault i) d end in
    outcome_matches m o && Bool.eqb (pd_claimed d') (co_claimed o) && Bool.eqb (pd_paused d') (co_paused o) && Bool.eqb (pd_recreate d') (co_recreate o) &&
    Bool.eqb (pd_strategy_anno d') (co_strategy_anno o) && Bool.eqb (pd_label d') (co_label o)
  | SCdep d =>
    let '(m, d') := match ci_op i with OpInit => cdep_initialize (ci_fault i) d | OpFinalize => cfinalize i d end in
    outcome_matches m o && Bool.eqb (cd_claimed d') (co_claimed o) && Bool.eqb (cd_paused d') (co_paused o) &&
    list_eqb Bool.eqb (cd_canaries d') (co_canaries o) && co_created_ok o
  end.

(* Finalize reports success (the executor then records Completed) only on a workload that has been handed back: no
   control-info annotation, and -- partition style without a pending batchPartition -- un-paused with the native strategy and no
   strategy annotation / control label; canary style: no owned canary Deployment still carries the batch-release finalizer.
   The partition-style Finalize skips a claimed Deployment that is not paused ("no need to finalize again"); the webhook keeps a
   claimed Deployment paused (C08), so the clause is about claimed AND paused Deployments. *)
Definition finalize_ok_means_released (c : case) : bool :=
  let '(i, o) := c in
  match ci_op i with
  | OpInit => true
  | OpFinalize =>
    if co_err o || co_panic o then true else
    match ci_state i with
    | SPdep d => if pd_claimed d && pd_paused d
                 then negb (co_claimed o) &&
                      (ci_partitioned i || (negb (co_paused o) && negb (co_recreate o) && negb (co_strategy_anno o) && negb (co_label o)))
                 else true
    | SCdep d => negb (co_claimed o) && forallb negb (co_canaries o)
    end
  end.
(* "where the policy is to wait -- every pod is updated and ready, on every attempt including retries": a canary-style Finalize
   with the WaitResume policy succeeds only on a promoted Deployment, from whatever state an earlier attempt left behind
   (theorem C11_canary_deployment_finalize_done_means_promoted) *)
Definition wait_resume_means_promoted (c : case) : bool :=
  let '(i, o) := c in
  match ci_op i, ci_state i with
  | OpFinalize, SCdep d => if ci_wait_resume i && negb (ci_stable_gone i) && negb (co_err o) && negb (co_panic o) then cdep_promoted (ci_partitioned i) (cd_status d) else true
  | _, _ => true
  end.
(* a failed API call is reported: with a fault injected at a call the operation really makes, the result is an error *)
Definition fault_is_reported (c : case) : bool :=
  let '(i, o) := c in
  match ci_state i, ci_op i with
  | SPdep d, OpInit => Bool.eqb (match fst (pdep_initialize (ci_fault i) d) with Failed => true | Done => false end) (co_err o)
  | SPdep d, OpFinalize => Bool.eqb (match fst (pdep_finalize (ci_partitioned i) (ci_fault i) d) with Failed => true | Done => false end) (co_err o)
  | SCdep d, OpInit => Bool.eqb (match fst (cdep_initialize (ci_fault i) d) with Failed => true | Done => false end) (co_err o)
  | SCdep d, OpFinalize => Bool.eqb (match fst (cfinalize i d) with Failed => true | Done => false end) (co_err o)
  end.

Definition judge (c : case) : list verdict :=
  let '(i, o) := c in
  [ if corresponds c then VOk else VMismatch;
    clause "C09_control_plane_no_panic" (negb (co_panic o));
    clause "C11_finalize_succeeds_only_on_a_released_workload" (finalize_ok_means_released c);
    clause "C11_wait_resume_finalize_succeeds_only_on_a_promoted_workload" (wait_resume_means_promoted c);
    clause "C05_finalize_succeeds_only_on_a_released_workload" (finalize_ok_means_released c);
    (* the BatchRelease gives up its finalizer after a successful Finalize: nothing it created may still need it *)
    clause "C18_finalize_success_leaves_nothing_that_needs_the_batchrelease" (finalize_ok_means_released c);
    clause "C06_failed_api_call_is_not_reported_as_success" (co_panic o || fault_is_reported c) ].

Definition tag (c : case) : string :=
  let '(i, o) := c in
  (match ci_state i with SPdep _ => "pdep" | SCdep _ => "cdep" end) ++ "/" ++ (match ci_op i with OpInit => "init" | OpFinalize => "finalize" end) ++
  (match ci_fault i with Some _ => "/fault" | None => "" end).
