(* Correspondence and property oracles for the luajson engine (C16). *)
From RV Require Export Base.Util Model.LuaJson.

Inductive lcase :=
| CRound (v : json) (obs : option json) (panicked : bool)      (* RunLuaScript("return obj") on {"v": v}, then Encode *)
| CTable (t : lval) (obs : option json) (panicked : bool)      (* Encode of a table built through RawSet *)
| CSurface (names : list string) (probes : list (string * bool))
| CHostile (name : string) (millis : Z) (outcome : string)
| CFresh (before after : string) (leak panicked : bool).       (* a well-behaved script's result before / after another rollout's tampering script *)
Definition case := lcase.

Fixpoint json_eqb (a b : json) : bool :=
  match a, b with
  | JNull, JNull => true
  | JBool x, JBool y => Bool.eqb x y
  | JNum x, JNum y => x =? y
  | JStr x, JStr y => String.eqb x y
  | JArr x, JArr y =>
    (fix go (x y : list json) : bool := match x, y with [], [] => true | p :: x', q :: y' => json_eqb p q && go x' y' | _, _ => false end) x y
  | JObj x, JObj y =>
    (fix go (x y : list (string * json)) : bool :=
       match x, y with [], [] => true | (k, p) :: x', (k', q) :: y' => String.eqb k k' && json_eqb p q && go x' y' | _, _ => false end) x y
  | _, _ => false
  end.

(* everything a script can name: the globals left after RunLuaScript opened math, base, table, string and json.
   "name:type"; tables are listed member by member (metatable fields and the input global `obj` left out), sorted *)
Definition surface : list string := [
  "_G:table"; "_GOPHER_LUA_VERSION:string"; "_VERSION:string"; "_printregs:function"; "assert:function"; "collectgarbage:function"; "error:function";
  "getfenv:function"; "getmetatable:function"; "ipairs:function"; "json.decode:function"; "json.encode:function"; "load:function";
  "loadstring:function"; "math.abs:function"; "math.acos:function"; "math.asin:function"; "math.atan2:function"; "math.atan:function";
  "math.ceil:function"; "math.cos:function"; "math.cosh:function"; "math.deg:function"; "math.exp:function"; "math.floor:function";
  "math.fmod:function"; "math.frexp:function"; "math.huge:number"; "math.ldexp:function"; "math.log10:function"; "math.log:function";
  "math.max:function"; "math.min:function"; "math.mod:function"; "math.modf:function"; "math.pi:number"; "math.pow:function"; "math.rad:function";
  "math.random:function"; "math.randomseed:function"; "math.sin:function"; "math.sinh:function"; "math.sqrt:function"; "math.tan:function";
  "math.tanh:function"; "module:function"; "newproxy:function"; "next:function"; "pairs:function"; "pcall:function"; "print:function";
  "rawequal:function"; "rawget:function"; "rawset:function"; "require:function"; "select:function"; "setfenv:function"; "setmetatable:function";
  "string.byte:function"; "string.char:function"; "string.dump:function"; "string.find:function"; "string.format:function"; "string.gfind:function";
  "string.gmatch:function"; "string.gsub:function"; "string.len:function"; "string.lower:function"; "string.match:function"; "string.rep:function";
  "string.reverse:function"; "string.sub:function"; "string.upper:function"; "table.concat:function"; "table.getn:function"; "table.insert:function";
  "table.maxn:function"; "table.remove:function"; "table.sort:function"; "tonumber:function"; "tostring:function"; "type:function";
  "unpack:function"; "xpcall:function" ].

(* names that reach the file system, processes or the network in gopher-lua: the file-loading functions of the base
   library and anything under io / os / package / debug / channel / coroutine-free libraries that touch the OS *)
Definition reaches_os (name : string) : bool :=
  has_prefix name "dofile:" || has_prefix name "loadfile:" || has_prefix name "io." || has_prefix name "os." ||
  has_prefix name "package." || has_prefix name "debug." || has_prefix name "io:" || has_prefix name "os:" || has_prefix name "package:".
Definition surface_safe (names : list string) : bool := forallb (fun n => negb (reaches_os n)) names.

(* the probes that must come back false: the script reached a file or an OS library *)
Definition os_probe (p : string) : bool := negb (String.eqb p "load runs a string").

Definition slow_limit_ms : Z := 3000.            (* the VM deadline is 1 s; 3 s allows for a loaded machine *)

Definition non_nil (x : lval) : bool := match x with LNil => false | _ => true end.
Definition jwidth (j : json) : Z := match j with JArr l => zlen l | JObj m => zlen m | _ => 0 end.
Definition live (t : lval) : Z :=
  match t with LTab arr hash => count non_nil arr + count (fun kv => non_nil (snd kv)) hash | _ => 0 end.

Definition judge (c : case) : list verdict :=
  match c with
  | CRound v obs p =>
    let m := encode (decode (JObj [("v", v)])) in
    [ if opt_eqb json_eqb m obs && negb p then VOk else VMismatch;
      clause "C16_value_roundtrip" (opt_eqb json_eqb obs (Some (norm (JObj [("v", v)]))) &&
                                    (if lossless (JObj [("v", v)]) then opt_eqb json_eqb obs (Some (JObj [("v", v)])) else true));
      clause "C16_never_panics" (negb p) ]
  | CTable t obs p =>
    [ if opt_eqb json_eqb (encode t) obs && negb p then VOk else VMismatch; clause "C16_never_panics" (negb p);
      (* whenever Encode succeeds nothing was dropped or padded: as many elements / members as the table has live entries *)
      clause "C16_encoding_loses_no_entry" (match obs with Some j => jwidth j =? live t | None => true end) ]
  | CFresh before after leak p =>
    [ clause "C16_fresh_state_per_call" (String.eqb before after && negb leak); clause "C16_never_panics" (negb p) ]
  | CSurface names probes =>
    [ if list_eqb String.eqb names surface then VOk else VMismatch;
      clause "C16_no_os_access" (surface_safe names && forallb (fun p => if os_probe (fst p) then negb (snd p) else true) probes) ]
  | CHostile name ms outcome =>
    [ clause "C16_returns_in_time" (ms <? slow_limit_ms);
      clause "C16_never_panics" (negb (String.eqb outcome "panic"));
      clause "C16_table_or_error" (String.eqb outcome "table" || String.eqb outcome "error" || String.eqb outcome "other") ]
  end.

Definition tag (c : case) : string :=
  match c with
  | CRound v _ _ => if lossless (JObj [("v", v)]) then "round/lossless" else "round/lossy"
  | CTable t obs _ => match obs with Some _ => "table/encodable" | None => "table/refused" end
  | CSurface _ _ => "surface"
  | CHostile _ _ o => ("hostile/" ++ o)%string
  | CFresh _ _ _ _ => "fresh-state"
  end.
