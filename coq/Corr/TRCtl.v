(* Correspondence and property oracles for the trctl engine (C18: the TrafficRouting controller's finalizer). *)
From RV Require Export Base.Util Model.TrafficMgr Model.TRCtl Corr.TrafficMgr.

Record tccase := {
  k_obj : trobj; k_net : net; k_pending : graces;
  k_panic : bool; k_err : bool; k_gone : bool; k_phase : tphase; k_own_fin : bool; k_requeue : bool;
  k_writes : list string; k_obs_net : net; k_obs_pending : list gaction;
  k_other_finalizers : bool           (* finalizers of progressing Rollouts keep the object alive *)
}.
Definition case := tccase.

Definition corresponds_tc (c : case) : bool :=
  let m := tr_reconcile (k_obj c) (k_net c) (k_pending c) in
  negb (k_panic c) &&
  (* once the own finalizer of a deleting object is gone and nothing else holds it, the object disappears and the final
     status write fails harmlessly *)
  let vanishes := to_deleting (k_obj c) && negb (ro_own_finalizer m) && negb (k_other_finalizers c) in
  (if vanishes then k_gone c else
     negb (k_gone c) && Bool.eqb (ro_own_finalizer m) (k_own_fin c) && tphase_eqb (ro_phase m) (k_phase c) &&
     Bool.eqb (ro_err m) (k_err c) && Bool.eqb (ro_requeue m) (k_requeue c)) &&
  list_eqb String.eqb (write_names (k_net c) (ro_writes m)) (k_writes c) &&
  net_eqb (apply_writes (k_net c) (ro_writes m)) (k_obs_net c) && same_actions (ro_graces m) (k_obs_pending c).

(* C18: the controller gives up its own finalizer only on a deleting object whose cleanup is complete: the gateway is
   restored and the reconcile did not fail *)
Definition c18_finalizer_guard (c : case) : bool :=
  let had := to_own_finalizer (k_obj c) in
  let has := negb (k_gone c) && k_own_fin c in
  if had && negb has then
    to_deleting (k_obj c) && match n_route (k_obs_net c) with RNone => true | RSet _ => false end && negb (existsb is_route_write (k_writes c))
  else true.
(* and conversely: once cleanup is complete the finalizer goes, so deletion is not blocked for ever *)
Definition c18_not_blocked (c : case) : bool :=
  let o := k_obj c in
  if to_deleting o && to_own_finalizer o && negb (to_gateway_fails o) &&
     match n_route (k_net c) with RNone => true | RSet _ => false end &&
     match g_lookup GRestoreGateway (k_pending c) with Some false => to_zero_grace o | _ => true end &&
     match g_lookup GRestoreService (k_pending c) with Some false => to_zero_grace o | _ => true end
  then k_gone c || negb (k_own_fin c) else true.

(* and the way there never goes quiet: a deleting object that keeps the finalizer after a reconcile is retried (error) or
   has asked for a requeue *)
Definition c18_never_stalls (c : case) : bool :=
  if to_deleting (k_obj c) && negb (k_gone c) && k_own_fin c then k_err c || k_requeue c else true.

(* C07: nobody but the controller's own requeue wakes a TrafficRouting object up: a reconcile that leaves it Finalizing (or still
   routing in Progressing) without an error has asked for a requeue *)
Definition c07_unfinished_means_requeue (c : case) : bool :=
  if negb (to_deleting (k_obj c)) && negb (k_gone c) && negb (k_err c) && negb (k_panic c) &&
     tphase_eqb (k_phase c) TpFinalizing && tphase_eqb (to_phase (k_obj c)) TpFinalizing
  then k_requeue c else true.

Definition judge (c : case) : list verdict :=
  [ if corresponds_tc c then VOk else VMismatch;
    clause "C07_trafficrouting_cleanup_unfinished_means_requeue" (c07_unfinished_means_requeue c);
    clause "C09_trafficrouting_reconcile_does_not_panic" (negb (k_panic c));
    clause "C18_trafficrouting_finalizer_guard" (c18_finalizer_guard c);
    clause "C18_trafficrouting_deletion_not_blocked" (c18_not_blocked c);
    clause "C18_trafficrouting_teardown_never_stalls" (c18_never_stalls c) ].

Definition tag (c : case) : string :=
  if to_deleting (k_obj c) then (if k_gone c || negb (k_own_fin c) then "deleting/released" else "deleting/held") else "live".
