(* Correspondence and property oracle for the noneed engine: rollback in batches on a partition-style CloneSet
   (partitionstyle/control_plane.go: UpgradeBatch = countAndUpdateNoNeedUpdateReplicas; CalculateBatchContext; UpgradeBatch). *)
From RV Require Export Base.Util Base.IntStr Model.BatchArith.

Record nnpod := { np_deleting : bool; np_revision : string; np_nnu : string }.
Record nn_in := { ni_n : Z; ni_plan : list ios; ni_cur : Z; ni_knob : option ios; ni_prev : option Z; ni_pods : list nnpod }.
Record nn_obs := { no_panic : bool; no_err : bool; no_count : option Z; no_knob_after : option ios }.
Definition case := (nn_in * nn_obs)%type.

Definition update_rev : string := "rev-v2".
Definition this_release : string := "r1".
(* countAndUpdateNoNeedUpdateReplicas: live pods of the update revision that carry the no-need-update label OF THIS RELEASE *)
Definition counts (p : nnpod) : bool :=
  negb (np_deleting p) && negb (sempty (np_revision p)) && has_suffix update_rev (np_revision p) && String.eqb (np_nnu p) this_release.
Definition nn_count (i : nn_in) : option Z :=
  match ni_prev i with None => None | Some _ => Some (count counts (ni_pods i)) end.

Definition arith_of_nn (i : nn_in) : arith_in :=
  {| a_kind := CloneSetK; a_plan := ni_plan i; a_n := ni_n i; a_cur := ni_cur i; a_noneed := nn_count i; a_knob := ni_knob i |}.

Definition raw (v : option ios) : ios := match v with Some x => x | None => IInt 0 end.
Definition corresponds (c : case) : bool :=
  let '(i, o) := c in
  negb (no_panic o) && opt_eqb Z.eqb (nn_count i) (no_count o) &&
  match calc_ctx (arith_of_nn i) with
  | None => false
  | Some cx => negb (no_err o) && ios_eqb (knob_after (arith_of_nn i) cx) (raw (no_knob_after o))
  end.

Definition in_domain (i : nn_in) : bool :=
  (0 <=? ni_cur i) && (ni_cur i <? zlen (ni_plan i)) && (0 <? ni_n i) &&
  forallb (fun s => match s with IInt z => 0 <? z | IPct p => (0 <? p) && (p <=? 100) | IBad => false end) (ni_plan i).

Definition judge (c : case) : list verdict :=
  let '(i, o) := c in
  if negb (in_domain i) then [] else
  [ if corresponds c then VOk else VMismatch;
    clause "C09_rollback_in_batches_no_panic" (negb (no_panic o));
    (* C01: judged with the TRUE number of pods that need no update (pods labelled for another release do need it): what the
       written partition exposes stays within the step applied to the pods that really need the update *)
    clause "C01_rollback_in_batches_write_within_step"
      (no_panic o || no_err o ||
       match znth (ni_plan i) (ni_cur i) with
       | Some step => implb (negb (ios_eqb (raw (ni_knob i)) (raw (no_knob_after o)))) (within_step (arith_of_nn i) step (raw (no_knob_after o)))
       | None => true end) ].

Definition tag (c : case) : string :=
  let '(i, o) := c in
  match ni_prev i with None => "not-a-rollback" | Some _ => if ios_eqb (raw (ni_knob i)) (raw (no_knob_after o)) then "no-write" else "write" end.
