(* Correspondence and property oracle for the labelpatch engine (C12). *)
From RV Require Export Base.Util Base.IntStr Model.LabelPatch.

(* what the harness observed: labels of every pod (input order) after the first pass *)
Record lp_obs := {
  ob_panic : bool; ob_err : bool;
  ob_labels : list (string * string * string);   (* rollout-id, batch-id, controller-revision-hash *)
  ob_n1 : Z;                                     (* Patch calls in pass 1 *)
  ob_second : option Z;                          (* Patch calls of a second pass; None: not run or it failed *)
  ob_perm : option (list (string * string * string))   (* ordered filter: labels after a pass that lists the same pods in reverse *)
}.
Definition case := (lp_input * lp_obs)%type.

Definition labels_of (p : pod) := (p_rid p, p_bid p, p_crh p).
Definition lbl_eqb (a b : string * string * string) : bool :=
  let '(a1, a2, a3) := a in let '(b1, b2, b3) := b in
  String.eqb a1 b1 && String.eqb a2 b2 && String.eqb a3 b3.

Definition corresponds (i : lp_input) (o : lp_obs) : bool :=
  match patch_pod_batch_label i with
  | Panic => ob_panic o
  | Err _ => negb (ob_panic o) && ob_err o
  | Ok ws => negb (ob_panic o) && negb (ob_err o) &&
             list_eqb lbl_eqb (map labels_of (apply_writes ws (i_pods i))) (ob_labels o) &&
             (zlen ws =? ob_n1 o)
  end.

(* ---- the property, as a boolean on (input, labels after) ---- *)
Definition after_pods (i : lp_input) (labels : list (string * string * string)) : list pod :=
  map (fun pl => let '(r, b, c) := snd pl in set_pod (fst pl) r b c) (combine (i_pods i) labels).

Definition live_new (i : lp_input) (p_after : pod) : bool :=
  negb (p_deleting p_after) && consistent (p_pth p_after) (p_crh p_after) (i_rev i).

(* the revision a pod REALLY is of: the hash label it carried before the pass, or, when it carried none and is owned by a
   ReplicaSet, that ReplicaSet's template hash -- not whatever hash the pass itself wrote onto it *)
Definition true_crh (b a : pod) : string :=
  if sempty (p_crh b) then match p_owner b with RSHash h => h | _ => p_crh a end else p_crh b.
(* clause 1: batch labels are given only to live pods of the new revision *)
Definition only_live_new (i : lp_input) (after : list pod) : bool :=
  forallb (fun ba => let '(b, a) := ba in
     (String.eqb (p_rid b) (p_rid a) && String.eqb (p_bid b) (p_bid a)) ||
     (live_new i a && negb (p_deleting b) && consistent (p_pth b) (true_crh b a) (i_rev i)))
    (combine (i_pods i) after).
(* ... and a controller-revision-hash written onto a pod is the hash of the pod's own ReplicaSet *)
Definition hash_is_the_owners (i : lp_input) (after : list pod) : bool :=
  forallb (fun ba => let '(b, a) := ba in
     String.eqb (p_crh b) (p_crh a) ||
     (sempty (p_crh b) && match p_owner b with RSHash h => String.eqb (p_crh a) h | _ => false end))
    (combine (i_pods i) after).

(* clause 2: the number of live new-revision pods carrying (rollout-id, batch k) never exceeds
   [a batch id is read as the number it spells, as in theorem C12_counted_pods_belong: "+1" and "01" are batch 1]
   max(number before, increment of batch k under the plan) *)
Definition carries (i : lp_input) (k : Z) (p : pod) (crh_after : string) : bool :=
  negb (p_deleting p) && consistent (p_pth p) crh_after (i_rev i) &&
  String.eqb (p_rid p) (i_rid i) && (match atoi (p_bid p) with Some b => b =? k | None => false end).
Definition never_over_budget (i : lp_input) (after : list pod) : bool :=
  let incs := planned_increments (i_batches i) (i_replicas i) (i_cur i) in
  forallb (fun ki => let '(k0, inc) := ki in let k := k0 + 1 in
     let before := count (fun ba => carries i k (fst ba) (p_crh (snd ba))) (combine (i_pods i) after) in
     let aft := count (fun a => carries i k a (p_crh a)) after in
     aft <=? Z.max before inc) (number_from 0 incs).

(* clause 3: a pod already labelled for this release is never relabelled *)
Definition no_relabel (i : lp_input) (after : list pod) : bool :=
  forallb (fun ba => let '(b, a) := ba in
     negb (String.eqb (p_rid b) (i_rid i)) || (String.eqb (p_rid a) (p_rid b) && String.eqb (p_bid a) (p_bid b)))
    (combine (i_pods i) after).

(* last sentence: stale pods are never counted towards a batch they do not belong to.  Only live pods of the new revision
   carrying (rollout-id, k) use up batch k's budget, so (without a filter) the pass stops only when the live new pods
   without this release's label run out or every batch up to the current one has its planned number of carriers *)
Definition budget_only_for_own (i : lp_input) (after : list pod) : bool :=
  match i_filter i with
  | FUnordered | FOrdered _ => true
  | FNone =>
    let incs := planned_increments (i_batches i) (i_replicas i) (i_cur i) in
    let unlabelled := count (fun a => live_new i a && negb (String.eqb (p_rid a) (i_rid i))) after in
    sempty (i_rid i) ||   (* the property speaks of releases with a rollout-id; without one nothing is labelled *)
    (unlabelled =? 0) ||
    forallb (fun ki => let '(k0, inc) := ki in let k := k0 + 1 in
       inc <=? count (fun a => carries i k a (p_crh a)) after) (number_from 0 incs)
  end.

Definition names_have_ordinal (i : lp_input) : bool :=
  match i_filter i with
  | FOrdered _ => forallb (fun p => match sort_key p with Some _ => true | None => false end) (i_pods i)
  | _ => true
  end.
Definition in_domain (i : lp_input) : bool := (0 <=? i_cur i) && (i_cur i <? zlen (i_batches i)).

Definition judge (c : case) : list verdict :=
  let '(i, o) := c in
  if negb (in_domain i) then [] else
  let after := after_pods i (ob_labels o) in
  [ (if corresponds i o then VOk else VMismatch);
    clause "C12_tolerates_any_labels(no panic)" (negb (ob_panic o) || negb (names_have_ordinal i)) ] ++
  (if ob_panic o || ob_err o then [] else
  [ clause "C12_only_live_new_revision" (only_live_new i after);
    clause "C12_written_hash_is_the_pods_own_replicaset_hash" (hash_is_the_owners i after);
    clause "C12_never_over_budget" (never_over_budget i after);
    clause "C12_no_relabel" (no_relabel i after);
    clause "C12_stale_pods_use_no_budget" (budget_only_for_own i after);
    clause "C12_idempotent" (match ob_second o with Some n => n =? 0 | None => false end);
    (* StatefulSets: a pass that lists the same pods in another order hands out the same labels *)
    clause "C12_same_labels_whatever_the_listing_order"
      (match i_filter i, ob_perm o with FOrdered _, Some l => list_eqb lbl_eqb l (ob_labels o) | FOrdered _, None => false | _, _ => true end) ]).

Definition tag (c : case) : string :=
  let '(i, o) := c in
  match i_filter i with FOrdered _ => "ordered/" | _ => "" end ++
  match patch_pod_batch_label i with
  | Panic => "panic"
  | Err _ => "rs-get-error"
  | Ok [] => "no-write"
  | Ok ws => if existsb (fun w => match w_bid w with Some _ => true | None => false end) ws
             then (if existsb (fun w => match w_crh w with Some _ => true | None => false end) ws
                   then "batch+hash-writes" else "batch-writes")
             else "hash-only-writes"
  end.
