(* Correspondence and property oracles for the brexec engine (C11, part of C01). *)
From RV Require Export Base.Util Base.IntStr Model.BatchArith Model.BRExec.
From RV Require Model.RolloutSM Model.Loop.

Record br_obs := { bo_panic : bool; bo_err : bool; bo_gone : bool; bo_status : br_status; bo_workload : cloneset;
                   bo_finalizer : bool; bo_requeue : bool;
                   bo_view : option (bool * bool * Z * bool);  (* the Rollout harness's reading of the same object: consistent, Ready, batch, completed *)
                   bo_in_unknown_kind : bool   (* INPUT flag carried with the observation: workloadRef names an unsupported kind *) }.
Definition case := (br_spec * br_status * cloneset * br_obs)%type.

Definition ctl_eqb (a b : ctl) : bool := match a, b with CtlNone, CtlNone | CtlMine, CtlMine | CtlOther, CtlOther => true | _, _ => false end.
Definition wl_eqb (a b : cloneset) : bool :=
  opt_eqb ios_eqb (w_partition a) (w_partition b) && Bool.eqb (w_paused a) (w_paused b) && ctl_eqb (w_ctl a) (w_ctl b).

(* Model/Loop.v's br_view is how the Rollout side reads the BatchRelease the BatchRelease side wrote *)
Definition view_agrees (sp : br_spec) (o : br_obs) : bool :=
  match bo_view o with
  | None => true
  | Some (vcons, ready, batch, completed) =>
    let v := Loop.br_view sp (bo_status o) "" "" false in
    Bool.eqb (RolloutSM.br_consistent v) vcons && Bool.eqb (RolloutSM.br_state_ready v) ready &&
    (RolloutSM.br_batch v =? batch) && Bool.eqb (RolloutSM.br_completed v) completed
  end.

(* a workloadRef of an unsupported kind: after the finalizer handling nothing is executed; since the fix of F34 the reconcile
   records the (initialised) status instead of dereferencing a status that was never built *)
Definition reconcile_unknown_kind (sp : br_spec) (st : br_status) (w : cloneset) : option br_result :=
  if sp_deleting sp && brphase_eqb (bs_phase st) PhCompleted && sp_finalizer sp then
    Some {| r_status := st; r_workload := w; r_finalizer := false; r_requeue := RqNone; r_err := false; r_upgraded := None |}
  else
    let s0 := match bs_phase st with PhInitial => reset_status st | _ => st end in
    Some {| r_status := set_gen_cond s0 (sp_generation sp) (bs_cond s0); r_workload := w; r_finalizer := true; r_requeue := RqNone; r_err := false; r_upgraded := None |}.
Definition model (c : case) : option br_result :=
  let '(sp, st, w, o) := c in if bo_in_unknown_kind o then reconcile_unknown_kind sp st w else reconcile sp st w.

Definition corresponds (c : case) : bool :=
  let '(sp, st, w, o) := c in
  match model c with
  | None => bo_panic o
  | Some r =>
    negb (bo_panic o) &&
    (if r_finalizer r then
       negb (bo_gone o) && status_eqb (r_status r) (bo_status o) && bo_finalizer o
     else (* finalizer removed: a deleting object disappears *) (bo_gone o || negb (bo_finalizer o))) &&
    wl_eqb (r_workload r) (bo_workload o) && Bool.eqb (r_err r) (bo_err o) && view_agrees sp o &&
    Bool.eqb (match r_requeue r with RqAfter => true | RqNone => false end) (bo_requeue o)
  end.

(* ---------- C11 clauses on what the implementation did ---------- *)
Definition desired_now (sp : br_spec) (batch : Z) (w : cloneset) : option Z :=
  match calc_ctx {| a_kind := CloneSetK; a_plan := sp_plan sp; a_n := w_replicas w; a_cur := batch; a_noneed := None; a_knob := w_partition w |} with
  | Some c => Some (c_desired c) | None => None end.

(* Ready is entered, or kept after executing the plan, only if the workload observed in this reconcile meets the batch *)
Definition ready_is_true (sp : br_spec) (st : br_status) (w : cloneset) (o : br_obs) : bool :=
  let n := bo_status o in
  let entered := bstate_eqb (bs_state n) SReady && brphase_eqb (bs_phase n) PhProgressing &&
                 negb (bstate_eqb (bs_state st) SReady && (bs_batch st =? bs_batch n)) in
  if entered then
    (w_replicas w =? 0) ||
    match desired_now sp (bs_batch n) w with
    | Some d => is_batch_ready d (w_st_updated w) (w_st_updated_ready w) (sp_ft sp)
    | None => false end
  else true.

(* ... and that observation is current: Ready is never entered on a workload whose controller has not yet observed the
   latest spec (status.observedGeneration behind metadata.generation: the counters describe an older template) *)
Definition ready_needs_a_current_status (sp : br_spec) (st : br_status) (w : cloneset) (o : br_obs) : bool :=
  let n := bo_status o in
  let entered := bstate_eqb (bs_state n) SReady && brphase_eqb (bs_phase n) PhProgressing &&
                 negb (bstate_eqb (bs_state st) SReady && (bs_batch st =? bs_batch n)) in
  if entered then negb (w_exists w) || negb (w_obs_gen w <? w_gen w) else true.

(* the batch cursor never advances beyond batchPartition *)
Definition never_beyond_partition (sp : br_spec) (st : br_status) (o : br_obs) : bool :=
  let n := bo_status o in
  negb (brphase_eqb (bs_phase n) PhProgressing) || (bs_batch n <=? bs_batch st) ||
  match sp_partition sp with Some p => bs_batch n <=? p | None => true end.

(* Completed is reported only when the workload has been released from control *)
Definition completed_means_released (sp : br_spec) (st : br_status) (w : cloneset) (o : br_obs) : bool :=
  let n := bo_status o in
  if brphase_eqb (bs_phase n) PhCompleted && negb (brphase_eqb (bs_phase st) PhCompleted) then
    negb (w_exists w) ||
    (negb (ctl_eqb (w_ctl (bo_workload o)) CtlMine) &&
     match sp_partition sp with
     | None => negb (w_paused (bo_workload o)) && match w_partition (bo_workload o) with None => true | Some _ => false end
     | Some _ => true end)
  else true.

(* degraded readiness, scaling or a changed plan: the state falls back to Upgrading, it does not stay Ready *)
Definition falls_back (sp : br_spec) (st : br_status) (w : cloneset) (o : br_obs) : bool :=
  let n := bo_status o in
  let was_ready := bstate_eqb (bs_state st) SReady && brphase_eqb (bs_phase st) PhProgressing in
  let still_progressing := brphase_eqb (bs_phase n) PhProgressing in
  let stable_obs := w_exists w && negb (w_obs_gen w <? w_gen w) && negb (w_st_replicas w =? w_st_updated w) in
  let scaled_ := negb (bs_obs_replicas st =? -1) && negb (w_replicas w =? bs_obs_replicas st) in
  let changed := negb (String.eqb (bs_hash st) (sp_hash sp)) in
  if was_ready && still_progressing && negb (sp_deleting sp) && (changed || (stable_obs && scaled_) && (bs_batch st <? zlen (sp_plan sp)))
  then negb (bstate_eqb (bs_state n) SReady) else true.

Definition in_domain (c : case) : bool :=
  let '(sp, st, w, o) := c in
  forallb (fun s => match s with IInt z => 0 <? z | IPct p => (0 <? p) && (p <=? 100) | IBad => false end) (sp_plan sp) &&
  negb (Nat.eqb (List.length (sp_plan sp)) 0).

(* ---------- C07: a quiet BatchRelease reconcile is waiting for somebody else ----------
   no requeue, no error, status and workload untouched: legitimate only when the release is Completed, when the sync phase
   decided to stop (the workload controller is still reconciling, the template changed under the release, a rollback in
   batches is being prepared: the next event is the workload's or the Rollout's), or when the current batch is Ready and
   held by batchPartition (the Rollout's move) *)
Definition waits_br (sp : br_spec) (st : br_status) (w : cloneset) : bool :=
  snd (sync_status sp st w) ||
  (brphase_eqb (bs_phase st) PhProgressing && bstate_eqb (bs_state st) SReady && is_partitioned sp st).
Definition c07_br_quiet_means_waiting (c : case) : bool :=
  let '(sp, st, w, o) := c in
  if negb (bo_panic o) && negb (bo_gone o) && bo_finalizer o && negb (bo_err o) && negb (bo_requeue o) &&
     status_eqb st (bo_status o) && wl_eqb w (bo_workload o)
  then waits_br sp st w else true.
(* stronger: the controller's watch ignores its own status updates (unless the object is deleting), so a reconcile without
   error and requeue must have written the workload or leave a state in which it has nothing to do *)
Definition c07_br_no_self_wake_means_settled (c : case) : bool :=
  let '(sp, st, w, o) := c in
  if negb (bo_panic o) && negb (bo_gone o) && bo_finalizer o && negb (bo_err o) && negb (bo_requeue o) && negb (sp_deleting sp)
  then negb (wl_eqb w (bo_workload o)) || waits_br sp (bo_status o) (bo_workload o) else true.

Definition judge (c : case) : list verdict :=
  if negb (in_domain c) then [] else
  let '(sp, st, w, o) := c in
  (if corresponds c then VOk else VMismatch) ::
  clause "C09_batchrelease_no_panic" (negb (bo_panic o)) ::
  (* a workloadRef of an unsupported kind is judged for C09 only: nothing can be executed for it, and the clauses below speak
     about releases of a supported workload (a deleting BatchRelease of an unsupported kind keeps its finalizer: observed, not judged) *)
  if bo_in_unknown_kind o then [] else
  (* the finalizer is given up (the object may be gone with it) only by a deleting BatchRelease that had recorded Completed *)
  (if bo_panic o then [] else
   [ clause "C18_batchrelease_finalizer_guard"
       ((negb (bo_gone o) && bo_finalizer o) || negb (sp_finalizer sp) || (sp_deleting sp && brphase_eqb (bs_phase st) PhCompleted));
     (* and the teardown never goes quiet: finalizer kept => failed, requeued, or the status moved (own watch event) *)
     clause "C18_batchrelease_teardown_never_stalls"
       (if sp_deleting sp && sp_finalizer sp && negb (bo_gone o) && bo_finalizer o
        then bo_err o || bo_requeue o || negb (status_eqb st (bo_status o)) else true) ]) ++
  (if bo_panic o || bo_gone o then [] else
   [ clause "C11_ready_is_true" (ready_is_true sp st w o);
     clause "C11_ready_needs_a_current_workload_status" (ready_needs_a_current_status sp st w o);
     clause "C11_never_beyond_partition" (never_beyond_partition sp st o);
     clause "C11_completed_means_released" (completed_means_released sp st w o);
     clause "C11_falls_back" (falls_back sp st w o);
     clause "C07_quiet_batchrelease_reconcile_is_waiting_for_someone" (c07_br_quiet_means_waiting c);
     clause "C07_batchrelease_without_requeue_has_nothing_left_to_do" (c07_br_no_self_wake_means_settled c) ]).

Definition tag (c : case) : string :=
  let '(sp, st, w, o) := c in
  match reconcile sp st w with
  | None => "panic"
  | Some r =>
    if negb (r_finalizer r) then "finalizer-removed" else
    if negb (status_eqb st (r_status r)) then
      (match bs_phase (r_status r) with PhPreparing => "->preparing" | PhProgressing =>
         (match bs_state (r_status r) with SUpgrading => "->upgrading" | SVerifying => "->verifying" | SReady => "->ready" | _ => "->other-state" end)
       | PhFinalizing => "->finalizing" | PhCompleted => "->completed" | _ => "->other-phase" end)
    else "status-unchanged"
  end.
