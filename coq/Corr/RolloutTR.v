(* Correspondence and property oracles for the rollouttr engine: one real Rollout reconcile with traffic routing
   (nginx Ingress), from any persisted state, network state and in-memory grace state (C03, C04 clauses per reconcile). *)
From RV Require Export Base.Util Base.IntStr Model.RolloutSM Model.TrafficMgr Model.RolloutTR Corr.RolloutSM Corr.TrafficMgr.

Record trcase := {
  x_inner : ro_case; x_strategies : list strategy; x_zero_grace : bool; x_gateway_fails : bool; x_net : net; x_pending : graces;
  x_obs_net : net; x_obs_writes : list string; x_obs_pending : list gaction;
  x_wl_read_fails : bool      (* fault injection: the first read of the workload fails in this reconcile *)
}.
Definition case := trcase.

Definition tspec (c : case) : tr_spec :=
  {| ts_sp := rc_spec (x_inner c); ts_strategies := x_strategies c; ts_refs := true; ts_zero_grace := x_zero_grace c; ts_gateway_fails := x_gateway_fails c |}.

(* a reconcile whose workload lookup fails stops right after the finalizer handling: an error, nothing written *)
Definition read_failed (c : case) : tr_res :=
  let i := x_inner c in let sp := rc_spec i in
  let fin := if rs_deleting sp then (if match rp_term (rc_status i) with Some true => true | _ => false end then false else rs_finalizer sp) else true in
  TrOut {| t_out := {| o_status := None; o_br := rc_br i; o_remove_progress_anno := false; o_finalizer := fin; o_requeue := false; o_err := true |};
           t_writes := []; t_graces := x_pending c |}.
Definition model (c : case) : tr_res :=
  let i := x_inner c in
  if x_wl_read_fails c then read_failed c else reconcile_tr (tspec c) (rc_status i) (rc_wl i) (rc_br i) (x_net c) (x_pending c).

(* C06: "any individual API call fails": a failed read of the workload must not be papered over -- the reconcile reports the
   error and has changed nothing (status, BatchRelease, network), so the retry starts from the same state *)
Definition c06_failed_read_changes_nothing (c : case) : bool :=
  let i := x_inner c in let o := rc_obs i in
  if x_wl_read_fails c && negb (ob_panic o) && negb (ob_gone o) then
    ob_err o && status_matches (rc_spec i) (rc_status i) (ob_status o) && opt_eqb br_eqb (rc_br i) (ob_br o) &&
    match x_obs_writes c with [] => true | _ => false end
  else true.

Definition corresponds_tr (c : case) : bool :=
  let i := x_inner c in let o := rc_obs i in
  match model c with
  | TrPanic => ob_panic o
  | TrOut r =>
    let m := t_out r in
    negb (ob_panic o) && (negb (o_finalizer m) || Bool.eqb (o_err m) (ob_err o)) &&
    (if o_finalizer m then negb (ob_gone o) && ob_finalizer o else (ob_gone o || negb (ob_finalizer o))) &&
    (ob_gone o || status_matches (rc_spec i) (match o_status m with Some s => s | None => rc_status i end) (ob_status o)) &&
    opt_eqb br_eqb (o_br m) (ob_br o) &&
    Bool.eqb (wl_exists (rc_wl i) && wl_in_progress (rc_wl i) && negb (o_remove_progress_anno m)) (ob_anno o) &&
    (o_err m || Bool.eqb (o_requeue m) (ob_requeue o)) &&
    list_eqb String.eqb (write_names (x_net c) (t_writes r)) (x_obs_writes c) &&
    net_eqb (apply_writes (x_net c) (t_writes r)) (x_obs_net c) &&
    same_actions (t_graces r) (x_obs_pending c)
  end.

(* ---- per-reconcile clauses ---- *)
Definition sub_of (s : ro_status) : option sub := rp_sub s.
Definition in_rolling_normal (c : case) : bool :=
  let i := x_inner c in
  rphase_eqb (rp_phase (rc_status i)) RpProgressing &&
  match rp_prog (rc_status i) with Some (PrInRolling, _, _) => true | _ => false end &&
  negb (user_cause (rc_spec i) (rc_status i) (rc_wl i)) && negb (rs_paused (rc_spec i)) && negb (rs_deleting (rc_spec i)) && negb (rs_disabled (rc_spec i)).

Definition in_rolling_normal_or_superseded (c : case) : bool :=
  let i := x_inner c in
  rphase_eqb (rp_phase (rc_status i)) RpProgressing &&
  match rp_prog (rc_status i) with Some (PrInRolling, _, _) => true | _ => false end &&
  negb (rs_paused (rc_spec i)) && negb (rs_deleting (rc_spec i)) && negb (rs_disabled (rc_spec i)).

Definition is_route_write_name (s : string) : bool := String.eqb s "create Ingress web-canary" || String.eqb s "patch Ingress web-canary".

(* C03a: during normal rolling a route is written only in the traffic-routing state of a step, i.e. after the step's pods
   were reported ready (C02 gates the entry into that state), and only behind a canary Service that selects the new revision
   and a stable Service pinned to the stable revision *)
Definition c03_route_after_ready (c : case) : bool :=
  let i := x_inner c in
  if in_rolling_normal c && existsb is_route_write_name (x_obs_writes c) then
    match sub_of (rc_status i) with
    | Some u => sstate_eqb (su_state u) StTraffic &&
                opt_eqb String.eqb (n_canary_svc (x_net c)) (Some (su_pth (fill_pth (observed_sub (rc_wl i) u) (rc_wl i)))) &&
                opt_eqb String.eqb (n_stable_sel (x_net c)) (Some (su_stable u))
    | None => false
    end
  else true.

(* C03b: leaving the traffic-routing state means the gateway carries exactly the step's strategy *)
Definition c03_routed_exactly (c : case) : bool :=
  let i := x_inner c in let o := rc_obs i in
  if in_rolling_normal c then
    match sub_of (rc_status i), sub_of (ob_status o) with
    | Some u, Some v =>
      if sstate_eqb (su_state u) StTraffic && sstate_eqb (su_state v) StMetrics && (su_idx u =? su_idx v) then
        let s := tr_strategy (tspec c) (su_idx u) in
        strategy_empty s ||
        ((match n_route (x_obs_net c) with RSet x => strategy_eqb x s | RNone => strategy_eqb s init_strategy end) &&
         opt_eqb String.eqb (n_canary_svc (x_obs_net c)) (Some (su_pth v)) && opt_eqb String.eqb (n_stable_sel (x_obs_net c)) (Some (su_stable v)))
      else true
    | _, _ => true
    end
  else true.

(* C03c: the first step with traffic creates its pods (BatchRelease created or re-targeted) only behind a pinned stable Service *)
Definition c03_pinned_before_first_pods (c : case) : bool :=
  let i := x_inner c in let o := rc_obs i in
  if in_rolling_normal c then
    match sub_of (rc_status i) with
    | Some u =>
      if (su_idx u =? 1) && sstate_eqb (su_state u) StInit && negb (strategy_empty (tr_strategy (tspec c) 1)) &&
         (* re-aligning the BatchRelease's rollout-id (syncBatchRelease, before the step runs) creates no pods: only a change
            beyond that one counts *)
         negb (opt_eqb br_eqb (snd (sync_br u (rc_br i))) (ob_br o)) && negb (opt_eqb br_eqb (rc_br i) (ob_br o))
      then match get_step (rc_spec i) 1 with
           | Some cur => full_step (rc_wl i) cur || opt_eqb String.eqb (n_stable_sel (x_obs_net c)) (Some (su_stable u))
           | None => true end
      else true
    | None => true
    end
  else true.

(* C04, rolling: a partition-style step that replaces every stable pod (its replicas round UP to the whole workload) lets its
   pods be created only behind an un-pinned stable Service (theorem C04_unpinned_before_full_step) *)
Definition c04_unpinned_before_full_step (c : case) : bool :=
  let i := x_inner c in let o := rc_obs i in
  if in_rolling_normal c && negb (ob_err o) && negb (ob_gone o) then
    match sub_of (rc_status i) with
    | Some u =>
      match get_step (rc_spec i) (su_idx u) with
      | Some cur =>
        if sstate_eqb (su_state u) StInit && negb (su_idx u =? 1) && negb (strategy_empty (tr_strategy (tspec c) (su_idx u))) &&
           full_step (rc_wl i) cur && n_stable_exists (x_net c) &&
           negb (opt_eqb br_eqb (snd (sync_br u (rc_br i))) (ob_br o)) && negb (opt_eqb br_eqb (rc_br i) (ob_br o))
        then match n_stable_sel (x_obs_net c) with Some r => sempty r | None => true end
        else true
      | None => true end
    | None => true
    end
  else true.

(* ---- the finalising cursor ---- *)
Definition pos (f : ftask) (r : freason) : option nat := pos_of f (canary_tasks r) O.
(* task T lies strictly behind the cursor f *)
Definition passed (r : freason) (T f : ftask) : bool :=
  match f with
  | FtEnd => true
  | _ => match pos T r, pos f r with Some i, Some j => Nat.ltb i j | _, _ => false end
  end.
Definition current (r : freason) (f : ftask) : ftask := match f with FtNone => next_task r FtNone | _ => f end.

(* the invariant of the finalising phase (Proofs/Finalising.v: finv) as a boolean on a persisted status and a network *)
Definition unpinned_b (n : net) : bool := match n_stable_sel n with Some r => sempty r | None => true end.
Definition route_behind_service (n : net) : bool :=
  match n_route n with RNone => true | RSet _ => match n_canary_svc n with Some _ => true | None => false end end.
Definition finv_b (r : freason) (u : sub) (n : net) : bool :=
  route_behind_service n &&
  implb (passed r FtRouteStable (su_fin u)) (match n_route n with RNone => true | RSet _ => false end) &&
  implb (passed r FtRemoveCanarySvc (su_fin u)) (match n_canary_svc n with None => true | Some _ => false end) &&
  implb (passed r FtRestoreStable (su_fin u) && n_stable_exists n) (unpinned_b n).
Definition finalising_reason (st : ro_status) : option freason :=
  match rp_phase st with
  | RpTerminating => match rp_term st with Some false => Some FrDelete | _ => None end
  | RpDisabling => Some FrDisabled
  | RpProgressing => match rp_prog st with Some (PrFinalising, _, _) => Some FrSuccess | Some (PrCancelling, _, _) => Some FrRollback | _ => None end
  | _ => None
  end.

(* C04 / C06 (per reconcile, on the real controller): from a persisted state that satisfies the finalising invariant, with
   ANY in-memory grace state, the state after the reconcile satisfies it again -- in particular no route points at a
   missing canary Service.  Without a workload the revision key is unknown (known finding F30). *)
Definition c04_invariant_kept (c : case) : bool :=
  let i := x_inner c in let o := rc_obs i in
  match finalising_reason (rc_status i), sub_of (rc_status i) with
  | Some r, Some u =>
    if finv_b r u (x_net c) && wl_exists (rc_wl i) && wl_consistent (rc_wl i) && negb (ob_gone o) then
      match finalising_reason (ob_status o), sub_of (ob_status o) with
      | Some r', Some v => finv_b r' v (x_obs_net c)
      | _, _ => route_behind_service (x_obs_net c)       (* the phase is over *)
      end
    else true
  | _, _ => true
  end.
Definition freason_eqb (a b : freason) : bool :=
  match a, b with FrSuccess, FrSuccess | FrRollback, FrRollback | FrDelete, FrDelete | FrDisabled, FrDisabled => true | _, _ => false end.
Definition reason_changed (c : case) : bool :=
  match finalising_reason (rc_status (x_inner c)), finalising_reason (ob_status (rc_obs (x_inner c))) with
  | Some a, Some b => negb (freason_eqb a b)
  | _, _ => false
  end.
(* and a phase that is declared over leaves nothing on the network *)
Definition c05_done_means_clean (c : case) : bool :=
  let i := x_inner c in let o := rc_obs i in
  match finalising_reason (rc_status i), sub_of (rc_status i) with
  | Some r, Some u =>
    if finv_b r u (x_net c) && wl_exists (rc_wl i) && wl_consistent (rc_wl i) && negb (ob_gone o) && negb (ftask_eqb (su_fin u) FtEnd) then
      match sub_of (ob_status o) with
      | Some v => if ftask_eqb (su_fin v) FtEnd
                  then (match n_route (x_obs_net c) with RNone => true | _ => false end) &&
                       (match n_canary_svc (x_obs_net c) with None => true | _ => false end) &&
                       (negb (n_stable_exists (x_obs_net c)) || unpinned_b (x_obs_net c))
                  else true
      | None => true
      end
    else true
  | _, _ => true
  end.

(* C05 (per reconcile): a finalising task is passed only when its effect is in place: the stable Service un-pinned, the
   gateway restored, the canary Service gone.  Checked whenever the finalising cursor moves off a traffic task. *)
Definition finalising_mode (c : case) : bool :=
  let st := rc_status (x_inner c) in
  match rp_phase st with
  | RpTerminating | RpDisabling => true
  | RpProgressing => match rp_prog st with Some (PrFinalising, _, _) | Some (PrCancelling, _, _) => true | _ => false end
  | _ => false
  end.
Definition c05_task_passed_means_done (c : case) : bool :=
  let i := x_inner c in let o := rc_obs i in
  if finalising_mode c && negb (ob_gone o) then
    match sub_of (rc_status i), sub_of (ob_status o) with
    | Some u, Some v =>
      if ftask_eqb (su_fin u) (su_fin v) then true else
      match su_fin u with
      | FtRestoreStable => negb (n_stable_exists (x_obs_net c)) || match n_stable_sel (x_obs_net c) with None => true | Some _ => false end
      | FtRouteStable => match n_route (x_obs_net c) with RNone => true | RSet _ => false end
      | FtRemoveCanarySvc => match n_canary_svc (x_obs_net c) with None => true | Some _ => false end
      | _ => true
      end
    | _, _ => true
    end
  else true.

(* C03: the traffic-routing state (or the one behind it) is entered from the init / upgrade state only when the BatchRelease
   for exactly this step reported its pods Ready -- the C02 gate, evaluated on reconciles with traffic routing *)
Definition c03_entered_after_ready (c : case) : bool :=
  let i := x_inner c in let o := rc_obs i in
  if in_rolling_normal c then
    match sub_of (rc_status i), sub_of (ob_status o) with
    | Some u, Some v =>
      if (su_idx u =? su_idx v) && (sstate_eqb (su_state u) StInit || sstate_eqb (su_state u) StUpgrade) &&
         (sstate_eqb (su_state v) StTraffic || sstate_eqb (su_state v) StMetrics)
      then let u1 := observed_sub (rc_wl i) u in br_ready_for (rc_spec i) u1 (rc_wl i) (synced_br u1 (rc_br i))
      else true
    | _, _ => true
    end
  else true.

(* C06: what a restarted controller needs in order to keep waiting is in the persisted status: a reconcile that changed a
   Service while routing traffic leaves a fresh lastUpdateTime behind (the grace wait of DoTrafficRouting is measured on it) *)
Definition is_service_write (s : string) : bool :=
  String.eqb s "create Service svc-canary" || String.eqb s "patch Service svc-canary" || String.eqb s "patch Service svc".
Definition c06_wait_survives_restart (c : case) : bool :=
  let i := x_inner c in let o := rc_obs i in
  if in_rolling_normal c && negb (ob_err o) && negb (ob_gone o) then
    match sub_of (rc_status i), sub_of (ob_status o) with
    | Some u, Some v => if sstate_eqb (su_state u) StTraffic && existsb is_service_write (x_obs_writes c) then negb (su_elapsed v) else true
    | _, _ => true
    end
  else true.

(* C04 at every write of the reconcile *)
Definition c04_writes_safe (c : case) : bool :=
  let i := x_inner c in
  let applies :=
      in_rolling_normal c && match sub_of (rc_status i) with Some u => ftask_eqb (su_fin u) FtNone | None => false end ||
      match finalising_reason (rc_status i), sub_of (rc_status i) with
      | Some r, Some u => finv_b r u (x_net c) && wl_exists (rc_wl i) && wl_consistent (rc_wl i)
      | _, _ => false
      end in
  if applies then writes_never_route_into_void (x_net c) (x_obs_writes c) else true.

(* C03 and step jumps: a jump (user-set nextStepIndex) lands in the traffic-routing state only when the target step calls for
   the same replicas as the current one; otherwise it restarts at StepInit so that the pods are upgraded first
   (Proofs/RolloutTR.v: jump_routes_only_between_equal_replicas) *)
Definition c03_jump_upgrades_first (c : case) : bool :=
  let i := x_inner c in let o := rc_obs i in let sp := rc_spec i in
  if in_rolling_normal_or_superseded c && negb (ob_err o) && negb (ob_gone o) && wl_exists (rc_wl i) && wl_consistent (rc_wl i) then
    match sub_of (rc_status i), sub_of (ob_status o) with
    | Some u, Some v =>
      let jump := negb (su_next u =? next_index (nsteps sp) (su_idx u)) && (0 <? su_next u) && (su_next u <=? nsteps sp) in
      if jump && (su_idx v =? su_next u) && negb (su_idx v =? su_idx u) && sstate_eqb (su_state v) StTraffic then
        match get_step sp (su_idx u), get_step sp (su_next u) with
        | Some cur, Some nx => ios_eqb (sp_replicas nx) (sp_replicas cur) &&
                               (* ... and only when pods for that replica count were already reported ready: the step jumped from is
                                  past its upgrade, or the BatchRelease reports the target's batch done *)
                               (negb (sstate_eqb (su_state u) StInit || sstate_eqb (su_state u) StUpgrade) ||
                                match synced_br (observed_sub (rc_wl i) u) (rc_br i) with
                                | Some b => br_consistent b && ((su_next u - 1 <? br_batch b) || ((su_next u - 1 =? br_batch b) && br_state_ready b))
                                | None => false end)
        | _, _ => true end
      else true
    | _, _ => true
    end
  else true.

(* ---- C10 with traffic routing: traffic is back on stable before the new-revision pods go ---- *)
Definition route_gone (n : net) : bool := match n_route n with RNone => true | RSet _ => false end.
(* rollback: a reconcile of the cancellation sequence that patches / deletes the BatchRelease starts from a network without
   canary route and writes nothing to it (Proofs/Finalising.v: rollback_touches_workload_after_traffic_back) *)
Definition c10_rollback_traffic_first (c : case) : bool :=
  let i := x_inner c in let o := rc_obs i in
  match rp_phase (rc_status i), rp_prog (rc_status i), sub_of (rc_status i) with
  | RpProgressing, Some (PrCancelling, _, _), Some u =>
    if finv_b FrRollback u (x_net c) && wl_exists (rc_wl i) && wl_consistent (rc_wl i) && negb (rs_deleting (rc_spec i)) && negb (ob_gone o) &&
       negb (opt_eqb br_eqb (rc_br i) (ob_br o))
    then route_gone (x_net c) && match x_obs_writes c with [] => true | _ => false end else true
  | _, _, _ => true
  end.
(* ... and the cancellation sequence keeps the invariant that hypothesis speaks about: in particular its cursor passes
   RouteTrafficToStable only once the route is really gone (C04's invariant, here for the rollback reason) *)
Definition c10_cancellation_keeps_invariant (c : case) : bool :=
  let i := x_inner c in
  match finalising_reason (rc_status i) with
  | Some FrRollback => if negb (rs_deleting (rc_spec i)) && negb (rs_disabled (rc_spec i)) then c04_invariant_kept c else true
  | _ => true
  end.
(* supersession: the reset removes the BatchRelease only in a reconcile after whose writes the canary route is gone
   (supersession_removes_pods_after_traffic_back) *)
Definition c10_supersession_traffic_first (c : case) : bool :=
  let i := x_inner c in let o := rc_obs i in let w := rc_wl i in
  if in_rolling_normal_or_superseded c then
    match sub_of (rc_status i) with
    | Some u =>
      let continuous := negb (sempty (su_canary_rev u)) && negb (String.eqb (wl_canary w) (su_canary_rev u)) && negb (wl_in_rollback w) in
      let reset_inv := match su_fin u with FtRelease | FtRemoveCanarySvc => route_gone (x_net c) | _ => true end in
      if continuous && wl_exists w && wl_consistent w && reset_inv && negb (opt_eqb br_eqb (rc_br i) (ob_br o))
      then route_gone (x_obs_net c) else true
    | None => true
    end
  else true.

(* C07 with traffic routing: every "not done yet" of the traffic manager comes with a requeue, so the quiet states are the
   ones of the reconcile without traffic (Corr/RolloutSM.v: waits_on); quiet additionally means no network write *)
Definition c07_quiet_means_waiting_tr (c : case) : bool :=
  let i := x_inner c in
  if quiet_obs i && negb (rs_deleting (rc_spec i)) && match x_obs_writes c with [] => true | _ => false end
  then waits_on (rc_spec i) (rc_status i) (rc_wl i) (rc_br i) else true.

Definition judge (c : case) : list verdict :=
  [ if corresponds_tr c then VOk else VMismatch;
    clause "C03_traffic_state_entered_only_after_pods_ready" (c03_entered_after_ready c);
    clause "C04_no_write_routes_into_a_void" (c04_writes_safe c);
    clause "C04_stable_unpinned_before_a_step_that_replaces_every_stable_pod" (c04_unpinned_before_full_step c);
    clause "C06_wait_survives_restart" (c06_wait_survives_restart c);
    clause "C06_failed_workload_read_changes_nothing" (c06_failed_read_changes_nothing c);
    (* C06: the same safety statement read as a crash statement -- from ANY half-configured network a crash or a failed call can
       leave behind (canary Service in place but stable Service not yet pinned, ...), with any in-memory state, the next
       reconcile writes a route only once both Services are in place *)
    clause "C06_no_route_from_a_half_configured_network" (c03_route_after_ready c);
    (* F30: without a workload the revision label key is unknown and RestoreStableService is passed with the pin in place *)
    clause_known "C05_task_passed_means_done" "C05:F30"
      (negb (wl_exists (rc_wl (x_inner c))) && match sub_of (rc_status (x_inner c)) with Some u => ftask_eqb (su_fin u) FtRestoreStable | None => false end && corresponds_tr c)
      (c05_task_passed_means_done c);
    clause "C03_route_written_only_after_pods_ready" (c03_route_after_ready c);
    clause "C03_routed_means_exact" (c03_routed_exactly c);
    clause "C03_stable_pinned_before_first_pods" (c03_pinned_before_first_pods c);
    clause "C03_jump_reaches_traffic_routing_only_between_equal_replicas" (c03_jump_upgrades_first c);
    (* F31: the exit reason changes while the cursor is mid-sequence (rollback being finalised, then delete / disable):
       the cursor is kept but read against the other order, so tasks are skipped *)
    clause_known "C04_finalising_invariant_kept" "C04:F31" (reason_changed c && corresponds_tr c) (c04_invariant_kept c);
    clause_known "C06_finalising_invariant_kept_from_any_memory_state" "C06:F31" (reason_changed c && corresponds_tr c) (c04_invariant_kept c);
    clause "C05_done_means_network_clean" (c05_done_means_clean c);
    clause "C07_quiet_reconcile_with_traffic_is_waiting_for_someone" (c07_quiet_means_waiting_tr c);
    clause "C10_rollback_touches_workload_only_after_traffic_is_back" (c10_rollback_traffic_first c);
    clause "C10_cancellation_keeps_the_traffic_invariant" (c10_cancellation_keeps_invariant c);
    clause "C10_supersession_removes_pods_only_after_traffic_is_back" (c10_supersession_traffic_first c) ].

Definition tag (c : case) : string :=
  match x_obs_writes c with
  | [] => "no-network-write"
  | _ => if existsb is_route_write_name (x_obs_writes c) then "route-write" else "service-write"
  end.

(* debugging aid: which component of the comparison fails *)
Definition diag_tr (c : case) : list string :=
  let i := x_inner c in let o := rc_obs i in
  match model c with
  | TrPanic => if ob_panic o then [] else ["model-panics"]
  | TrOut r =>
    let m := t_out r in
    (if ob_panic o then ["impl-panics"] else []) ++
    (if (if o_finalizer m then negb (ob_gone o) && ob_finalizer o else (ob_gone o || negb (ob_finalizer o))) then [] else ["finalizer"]) ++
    (if (negb (o_finalizer m) || Bool.eqb (o_err m) (ob_err o)) then [] else ["err"]) ++
    (if (ob_gone o || status_matches (rc_spec i) (match o_status m with Some s => s | None => rc_status i end) (ob_status o)) then [] else ["status"]) ++
    (if opt_eqb br_eqb (o_br m) (ob_br o) then [] else ["br"]) ++
    (if Bool.eqb (wl_exists (rc_wl i) && wl_in_progress (rc_wl i) && negb (o_remove_progress_anno m)) (ob_anno o) then [] else ["anno"]) ++
    (if (o_err m || Bool.eqb (o_requeue m) (ob_requeue o)) then [] else ["requeue"]) ++
    (if list_eqb String.eqb (write_names (x_net c) (t_writes r)) (x_obs_writes c) then [] else "writes" :: write_names (x_net c) (t_writes r)) ++
    (if net_eqb (apply_writes (x_net c) (t_writes r)) (x_obs_net c) then [] else ["net"]) ++
    (if same_actions (t_graces r) (x_obs_pending c) then [] else ["graces"])
  end.
