(* Correspondence and property oracles for the webhook engine (C08). *)
From RV Require Export Base.Util Base.IntStr Model.Webhook.

Record wcase := { c_in : winput; c_res : wresult; c_frame : bool (* nothing outside the modelled fields changed *) }.
Definition case := wcase.

Definition stype_eqb (a b : stype) : bool :=
  match a, b with StRolling, StRolling | StRecreate, StRecreate | StEmpty, StEmpty => true | _, _ => false end.
Definition wpatch_eqb (a b : wpatch) : bool :=       (* all fields but wp_anno_written *)
  String.eqb (wp_progress a) (wp_progress b) && opt_eqb ios_eqb (wp_partition a) (wp_partition b) &&
  opt_eqb Z.eqb (wp_ds_partition a) (wp_ds_partition b) && Bool.eqb (wp_paused a) (wp_paused b) &&
  stype_eqb (wp_stype a) (wp_stype b) && opt_eqb String.eqb (wp_ru a) (wp_ru b) &&
  Bool.eqb (wp_anno_paused a) (wp_anno_paused b) &&
  String.eqb (wp_stable_label a) (wp_stable_label b) && opt_eqb Z.eqb (wp_sts_partition a) (wp_sts_partition b) &&
  String.eqb (wp_sts_type a) (wp_sts_type b).
(* model result against observed response. A handler that reports "changed" without changing anything yields an empty
   patch, which is observed as unchanged; the strategy annotation is rewritten only where the model says it may be. *)
Definition result_matches (i : winput) (model obs : wresult) : bool :=
  match model, obs with
  | WUnchanged, WUnchanged | WError, WError | WPanic, WPanic => true
  | WPatched p, WPatched q => wpatch_eqb p q && implb (wp_anno_written q) (wp_anno_written p)
  | WPatched p, WUnchanged => wpatch_eqb p (wo_f (wi_new i))
  | _, _ => false
  end.

(* ---- the property, stated on (input, result) without reference to the handlers ---- *)

Definition in_progress (i : winput) : bool :=
  match wi_kind i with KDeployment => negb (sempty (wp_progress (wo_f (wi_new i)))) | _ => false end.

(* running replicas *)
Definition running (i : winput) : bool :=
  match wi_kind i with
  | KDaemonSet => true
  | KDeployment => negb (zero_replicas (wi_new i)) && (0 <? zlen (filter rs_active (wi_rss i)))
  | _ => negb (zero_replicas (wi_new i))
  end.
(* a single revision is running (needed only when the Rollout routes traffic) *)
Definition single_revision (i : winput) : bool :=
  match wi_kind i with
  | KCloneSet => wo_st_replicas (wi_new i) =? wo_st_updated (wi_new i)
  | KDeployment => zlen (filter rs_active (wi_rss i)) =? 1
  | _ => true
  end.
(* the unified handler serves StatefulSet-like workloads with a rolling update strategy and a pod template *)
Definition served (i : winput) : bool :=
  match wi_kind i with
  | KOther _ k =>
    (wo_sts_label (wi_new i) || String.eqb k "StatefulSet") &&
    (sempty (wp_sts_type (wo_f (wi_new i))) || String.eqb (wp_sts_type (wo_f (wi_new i))) "RollingUpdate") &&
    wo_has_tmpl (wi_new i) && wo_has_tmpl (wi_old i)
  | _ => true
  end.
Definition active_rollout (i : winput) : option rollout_ref :=
  match matched (wi_kind i) (wo_name (wi_new i)) (wi_rollouts i) with
  | Some r => if rr_empty r then None else Some r
  | None => None
  end.
(* Some name: the request must be held for Rollout name *)
Definition must_hold (i : winput) : option string :=
  if selected i && negb (in_progress i) && served i && running i && release_change (wi_new i) (wi_old i) then
    match active_rollout i with
    | Some r => if negb (rr_traffic r) || single_revision i then Some (rr_name r) else None
    | None => None
    end
  else None.
Definition held (k : wkind) (p : wpatch) : bool :=
  match k with
  | KCloneSet => opt_eqb ios_eqb (wp_partition p) (Some (IPct 100))
  | KDaemonSet => opt_eqb Z.eqb (wp_ds_partition p) (Some max_int16)
  | KDeployment => wp_paused p
  | KOther _ _ => opt_eqb Z.eqb (wp_sts_partition p) (Some max_int16) && (sempty (wp_sts_type p) || String.eqb (wp_sts_type p) "RollingUpdate")
  end.
Definition release_is_held (i : winput) (res : wresult) : bool :=
  match must_hold i with
  | Some name => match res with WPatched p => held (wi_kind i) p && String.eqb (wp_progress p) (state_json name) | _ => false end
  | None => true
  end.

(* admitted unchanged: not selected, or (outside an in-progress Deployment) no matching active Rollout or no release change *)
Definition must_be_unchanged (i : winput) : bool :=
  negb (selected i) ||
  (negb (in_progress i) && (negb (release_change (wi_new i) (wi_old i)) || negb (is_some (active_rollout i)))).
Definition unchanged_otherwise (i : winput) (res : wresult) : bool :=
  if must_be_unchanged i then match res with WUnchanged => true | _ => false end else true.

(* the fields a handler may touch, per kind; everything else keeps its submitted value *)
Definition frame_ok (i : winput) (res : wresult) : bool :=
  match res with
  | WPatched p =>
    let f := wo_f (wi_new i) in
    let cs := opt_eqb ios_eqb (wp_partition p) (wp_partition f) in
    let ds := opt_eqb Z.eqb (wp_ds_partition p) (wp_ds_partition f) in
    let dp := Bool.eqb (wp_paused p) (wp_paused f) && stype_eqb (wp_stype p) (wp_stype f) && opt_eqb String.eqb (wp_ru p) (wp_ru f) &&
              Bool.eqb (wp_anno_paused p) (wp_anno_paused f) && Bool.eqb (wp_anno_written p) (wp_anno_written f) && String.eqb (wp_stable_label p) (wp_stable_label f) in
    let st := opt_eqb Z.eqb (wp_sts_partition p) (wp_sts_partition f) && String.eqb (wp_sts_type p) (wp_sts_type f) in
    match wi_kind i with
    | KCloneSet => ds && dp && st
    | KDaemonSet => cs && dp && st
    | KDeployment => cs && ds && st && (if in_progress i then String.eqb (wp_progress p) (wp_progress f) else true)
    | KOther _ _ => cs && ds && dp
    end
  | _ => true
  end.

(* an edit in the middle of a canary- or partition-style release cannot leave the Deployment un-paused *)
Definition unpause_corrected (i : winput) (res : wresult) : bool :=
  if selected i && in_progress i && (match wo_style (wi_new i) with DsPartition => true | _ => negb (wo_original (wi_new i)) end) then
    match res with
    | WPatched p => wp_paused p
    | WUnchanged => wp_paused (wo_f (wi_new i))
    | _ => false
    end
  else true.

(* ... and ONLY there: a blue-green release (the Deployment carries the original-strategy annotation) is driven un-paused, so an
   update of it that is no release change -- the controller's own un-pause included -- is admitted as submitted *)
Definition bluegreen_left_alone (i : winput) (res : wresult) : bool :=
  if selected i && in_progress i && wo_original (wi_new i) && (match wo_style (wi_new i) with DsPartition => false | _ => true end) &&
     negb (release_change (wi_new i) (wi_old i))
  then match res with WUnchanged => true | WPatched p => Bool.eqb (wp_paused p) (wp_paused (wo_f (wi_new i))) | _ => false end else true.

Definition no_failure (res : wresult) : bool := match res with WError | WPanic => false | _ => true end.

Definition judge (c : case) : list verdict :=
  let i := c_in c in let res := c_res c in
  [ if result_matches i (handle i) res then VOk else VMismatch;
    clause "C08_release_is_held" (release_is_held i res);
    clause "C08_unchanged_otherwise" (unchanged_otherwise i res);
    clause "C08_frame" (c_frame c && frame_ok i res);
    clause "C08_unpause_corrected" (unpause_corrected i res);
    clause "C08_bluegreen_unpause_is_left_alone" (bluegreen_left_alone i res);
    clause "C08_admission_never_fails" (no_failure res) ].

Definition tag (c : case) : string :=
  let i := c_in c in
  ((match wi_kind i with KCloneSet => "cloneset" | KDaemonSet => "daemonset" | KDeployment => "deployment" | KOther _ _ => "stateful" end) ++ "/" ++
   (if negb (selected i) then "unselected" else
    if in_progress i then
      (match c_res c with WPatched _ => "in-progress-corrected" | WUnchanged => "in-progress-kept" | _ => "in-progress-failed" end)
    else match must_hold i with
         | Some _ => "held"
         | None => if must_be_unchanged i then "must-stay" else
                   match c_res c with WPatched _ => "free-patched" | WUnchanged => "free-unchanged" | _ => "failed" end
         end))%string.
