(* Correspondence and property oracle for the trfin engine (C18). *)
From RV Require Export Base.Util Base.IntStr Model.TRFin.

Inductive t2op := OpHandle | OpFinalizeTR.
Record t2obs := { o2_panic : bool; o2_err : bool; o2_ready : bool; o2_exists : bool; o2_mine : bool; o2_others : bool }.
Record t2case := { c2_op : t2op; c2_fail : bool; c2_obj : trobj2; c2_obs : t2obs }.
Definition case := t2case.

Definition corresponds (c : case) : bool :=
  let o := c2_obs c in
  negb (o2_panic o) &&
  match c2_op c with
  | OpHandle =>
    let '(r, t') := handle_tr (c2_fail c) (c2_obj c) in
    Bool.eqb (match r with T2Err => true | _ => false end) (o2_err o) && Bool.eqb (match r with T2Ready => true | _ => false end) (o2_ready o) &&
    Bool.eqb (t2_exists t') (o2_exists o) && (negb (t2_exists t') || (Bool.eqb (t2_mine t') (o2_mine o) && Bool.eqb (t2_others t') (o2_others o)))
  | OpFinalizeTR =>
    let '(e, t') := finalize_tr (c2_fail c) (c2_obj c) in
    Bool.eqb e (o2_err o) && Bool.eqb (t2_exists t') (o2_exists o) &&
    (negb (t2_exists t') || (Bool.eqb (t2_mine t') (o2_mine o) && Bool.eqb (t2_others t') (o2_others o)))
  end.

Definition judge (c : case) : list verdict :=
  let o := c2_obs c in
  [ if corresponds c then VOk else VMismatch;
    clause "C09_trafficrouting_finalizer_helpers_no_panic" (negb (o2_panic o));
    (* once the Rollout is done with the object its finalizer goes, deleting or not: deletion is not blocked for ever *)
    clause "C18_progressing_finalizer_removed_when_the_rollout_is_done"
      (match c2_op c with
       | OpFinalizeTR => if t2_exists (c2_obj c) && negb (c2_fail c) && negb (o2_panic o) then negb (o2_err o) && (negb (o2_exists o) || negb (o2_mine o)) else true
       | OpHandle => true end);
    (* the object counts as usable only with the finalizer on it; it is not put on an object on its way out *)
    clause "C18_progressing_finalizer_guards_the_object_in_use"
      (match c2_op c with
       | OpHandle => (negb (o2_ready o) || (o2_exists o && o2_mine o)) &&
                     (if negb (t2_mine (c2_obj c)) && match t2_phase (c2_obj c) with TOtherPhase => false | _ => true end then negb (o2_exists o && o2_mine o) else true)
       | OpFinalizeTR => true end) ].

Definition tag (c : case) : string :=
  (match c2_op c with OpHandle => "handle" | OpFinalizeTR => "finalize" end) ++ (if t2_deleting (c2_obj c) then "/deleting" else "/live").
