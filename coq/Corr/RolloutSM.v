(* Correspondence and property oracles for the rolloutsm engine (C02, C09, C10, C18). *)
From RV Require Export Base.Util Base.IntStr Model.RolloutSM.

Record ro_obs := {
  ob_panic : bool; ob_err : bool; ob_gone : bool; ob_status : ro_status; ob_br : option brel;
  ob_anno : bool;        (* the workload still carries the in-progressing annotation *)
  ob_finalizer : bool; ob_requeue : bool
}.
Record ro_case := { rc_spec : ro_spec; rc_status : ro_status; rc_wl : wl; rc_br : option brel; rc_obs : ro_obs }.
Definition case := ro_case.

Definition sub_eqb (a b : sub) : bool :=
  (su_obs_wl_gen a =? su_obs_wl_gen b) && String.eqb (su_obs_rid a) (su_obs_rid b) && String.eqb (su_hash a) (su_hash b) &&
  String.eqb (su_stable a) (su_stable b) && String.eqb (su_pth a) (su_pth b) && (su_idx a =? su_idx b) && (su_next a =? su_next b) &&
  sstate_eqb (su_state a) (su_state b) && ftask_eqb (su_fin a) (su_fin b) && Bool.eqb (su_elapsed a) (su_elapsed b) &&
  String.eqb (su_canary_rev a) (su_canary_rev b) && (su_creplicas a =? su_creplicas b) && (su_cready a =? su_cready b).
Definition prog_eqb (a b : preason * bool * bool) : bool :=
  let '(r1, s1, e1) := a in let '(r2, s2, e2) := b in preason_eqb r1 r2 && Bool.eqb s1 s2 && Bool.eqb e1 e2.
Definition rstatus_eqb (a b : ro_status) : bool :=
  rphase_eqb (rp_phase a) (rp_phase b) && (rp_obs_gen a =? rp_obs_gen b) && opt_eqb prog_eqb (rp_prog a) (rp_prog b) &&
  opt_eqb Bool.eqb (rp_term a) (rp_term b) && opt_eqb Bool.eqb (rp_succ a) (rp_succ b) && opt_eqb sub_eqb (rp_sub a) (rp_sub b).
Definition br_eqb (a b : brel) : bool := br_spec_eqb a b && Bool.eqb (br_deleting a) (br_deleting b).

(* CheckNextBatchIndexWithCorrect repairs an out-of-range nextStepIndex in memory on every reconcile; whether the repaired
   value is also persisted depends on whether anything else in the status changed (the status writer skips equal statuses).
   The comparison therefore reads nextStepIndex through the repair on both sides. *)
Definition repaired_next (sp : ro_spec) (s : ro_status) : ro_status :=
  match rp_sub s with
  | Some u => if (su_next u <=? 0) || (nsteps sp <? su_next u)
              then set_sub s (Some (upd_sub u (su_idx u) (next_index (nsteps sp) (su_idx u)) (su_state u) (su_fin u) (su_elapsed u))) else s
  | None => s
  end.
Definition status_matches (sp : ro_spec) (a b : ro_status) : bool := rstatus_eqb (repaired_next sp a) (repaired_next sp b).

Definition corresponds (c : case) : bool :=
  let o := rc_obs c in
  match reconcile (rc_spec c) (rc_status c) (rc_wl c) (rc_br c) with
  | RPanic => ob_panic o
  | ROut m =>
    (* once the finalizer is dropped the object is gone; a late status write then fails harmlessly *)
    negb (ob_panic o) && (negb (o_finalizer m) || Bool.eqb (o_err m) (ob_err o)) &&
    (if o_finalizer m then negb (ob_gone o) && ob_finalizer o else (ob_gone o || negb (ob_finalizer o))) &&
    (ob_gone o || status_matches (rc_spec c) (match o_status m with Some s => s | None => rc_status c end) (ob_status o)) &&
    opt_eqb br_eqb (o_br m) (ob_br o) &&
    Bool.eqb (wl_exists (rc_wl c) && wl_in_progress (rc_wl c) && negb (o_remove_progress_anno m)) (ob_anno o) &&
    Bool.eqb (o_requeue m) (ob_requeue o)
  end.

(* ---------- C02: the step cursor moves only along the gated path, or for a user-requested cause ---------- *)
Definition cursor (s : ro_status) : option (Z * sstate) := match rp_sub s with Some u => Some (su_idx u, su_state u) | None => None end.
Definition cursor_eqb (a b : option (Z * sstate)) : bool := opt_eqb (fun x y => (fst x =? fst y) && sstate_eqb (snd x) (snd y)) a b.

(* causes other than the normal path that may legitimately move the cursor in this reconcile *)
Definition user_cause (sp : ro_spec) (old : ro_status) (w : wl) : bool :=
  match rp_sub old, rp_prog old with
  | Some u, Some (PrInRolling, _, _) =>
    negb (su_next u =? next_index (nsteps sp) (su_idx u)) && (0 <? su_next u)                 (* step jump *)
    || (negb (sempty (su_hash u)) && negb (String.eqb (su_hash u) (rs_hash sp)))              (* plan edit *)
    || negb (String.eqb (wl_canary w) (su_canary_rev u))                                      (* rollback / new revision *)
  | _, Some (PrInRolling, _, _) => false
  | _, _ => true                                                                              (* initialising, finalising, cancelling, not progressing *)
  end.

(* the BatchRelease as the release manager sees it after re-aligning its rollout-id with the observed one *)
Definition synced_br (u : sub) (br : option brel) : option brel :=
  match br with
  | Some b => if String.eqb (su_obs_rid u) (br_rid b) then br else Some (set_rid b (su_obs_rid u))
  | None => None end.

(* step idx's pods were upgraded and reported ready: the BatchRelease carries exactly the plan and partition the Rollout
   wants for this step, has observed it, and reports the batch Ready *)
Definition br_ready_for (sp : ro_spec) (u : sub) (w : wl) (br : option brel) : bool :=
  match br with
  | Some b => br_spec_eqb b (desired_br sp (rollout_id w) (su_idx u - 1) (wl_in_rollback w) br) && br_consistent b &&
              br_state_ready b && (su_idx u <=? br_batch b + 1)
  | None => false end.

Definition gated_sub (sp : ro_spec) (u : sub) (w : wl) (br : option brel) (v : sub) : bool :=
  let same_idx := su_idx v =? su_idx u in
  match su_state u, su_state v with
  | StInit, StUpgrade => same_idx
  | StUpgrade, StTraffic | StUpgrade, StMetrics => same_idx && br_ready_for sp u w br     (* pods upgraded and reported ready *)
  | StTraffic, StMetrics => same_idx                                                       (* traffic applied (none configured here) *)
  | StMetrics, StPaused => same_idx
  | StPaused, StReady =>                                                                   (* approval is an external status write; here only the timed gate *)
    same_idx && match get_step sp (su_idx u) with
                | Some stp => ((nsteps sp =? su_idx u) && ios_eqb (sp_replicas stp) (IPct 100)) ||
                              (match sp_pause stp with Some d => su_elapsed u || (d <=? 0) | None => false end)
                | None => false end
  | StReady, StInit => (su_idx v =? su_idx u + 1) && (su_idx u <? nsteps sp)
  | StReady, StCompleted => same_idx && (nsteps sp <=? su_idx u)
  | _, _ => false
  end.

(* the sub-status after calculateRolloutStatus refreshed the observed rollout-id / workload generation *)
Definition observed_sub (w : wl) (u : sub) : sub :=
  if wl_exists w && wl_consistent w && negb (sempty (su_canary_rev u)) && String.eqb (su_canary_rev u) (wl_canary w)
  then upd_sub_obs u (wl_gen w) (rollout_id w) (su_creplicas u) (su_cready u) else u.

Definition gated_transition (sp : ro_spec) (old : ro_status) (w : wl) (br : option brel) (new : ro_status) : bool :=
  match rp_sub old, rp_sub new with
  | Some u, Some v => let u1 := observed_sub w u in gated_sub sp u1 w (synced_br u1 br) v
  | _, _ => false
  end.

Definition c02_gated (c : case) : bool :=
  let o := rc_obs c in
  negb (rphase_eqb (rp_phase (rc_status c)) RpProgressing) ||
  cursor_eqb (cursor (rc_status c)) (cursor (ob_status o)) ||
  user_cause (rc_spec c) (rc_status c) (rc_wl c) ||
  gated_transition (rc_spec c) (rc_status c) (rc_wl c) (rc_br c) (ob_status o).

(* no forward progress while spec.paused (a direct rollback is still honoured) *)
Definition c02_paused (c : case) : bool :=
  let sp := rc_spec c in let o := rc_obs c in
  match rp_prog (rc_status c), rphase_eqb (rp_phase (rc_status c)) RpProgressing with
  | Some (PrInRolling, _, _), true =>
    if rs_paused sp && negb (rs_deleting sp) && negb (rs_disabled sp) then
      (* the workload vanishing resets the status; that is not progress *)
      (cursor_eqb (cursor (rc_status c)) (cursor (ob_status o)) || match rp_sub (ob_status o) with None => true | Some _ => false end) &&
      opt_eqb br_eqb (rc_br c) (ob_br o)
    else true
  | _, _ => true
  end.

(* every write of batchPartition authorises exactly the step the rollout is on *)
Definition c02_partition (c : case) : bool :=
  let o := rc_obs c in
  match ob_br o, rp_sub (rc_status c) with
  | Some b', Some u =>
    let before := match rc_br c with Some b => br_partition b | None => None end in
    if rphase_eqb (rp_phase (rc_status c)) RpProgressing && negb (opt_eqb Z.eqb before (br_partition b')) then
      match br_partition b' with
      | Some p => match rp_prog (rc_status c) with
                  | Some (PrInRolling, _, _) => (p =? su_idx u - 1) && sstate_eqb (su_state u) StUpgrade
                  | _ => false end
      | None => true     (* finalising hands the workload back *)
      end
    else true
  | _, _ => true
  end.

(* C10: a direct rollback is answered by cancelling, without touching BatchRelease or cursor in that reconcile;
   a new revision removes the BatchRelease before the status is reset to step one *)
Definition c10_dispatch (c : case) : bool :=
  let sp := rc_spec c in let w := rc_wl c in let o := rc_obs c in
  match rp_prog (rc_status c), rp_sub (rc_status c), rphase_eqb (rp_phase (rc_status c)) RpProgressing with
  | Some (PrInRolling, _, _), Some u, true =>
    if negb (wl_exists w && wl_consistent w) || rs_deleting sp then true else
    let differs := negb (String.eqb (wl_canary w) (su_canary_rev u)) in
    if wl_in_rollback w && differs && negb (rs_rollback_in_batch sp) then
      match rp_prog (ob_status o) with Some (PrCancelling, _, _) => opt_eqb br_eqb (rc_br c) (ob_br o) | _ => false end
    else if negb (sempty (su_canary_rev u)) && differs && negb (wl_in_rollback w) && negb (rs_paused sp) then
      match rc_br c with
      | Some _ => (* the BatchRelease is still there: it must be on its way out and the status not yet reset *)
                  match ob_br o with Some b' => br_deleting b' | None => true end &&
                  match rp_sub (ob_status o) with Some _ => true | None => false end
      | None => match rp_prog (ob_status o), rp_sub (ob_status o) with Some (PrInitializing, _, _), None => true | _, _ => false end
      end
    else true
  | _, _, _ => true
  end.

(* C18: the finalizer is dropped only once the Terminating condition says Completed *)
Definition c18_finalizer (c : case) : bool :=
  let o := rc_obs c in
  (negb (ob_gone o) && ob_finalizer o) || negb (rs_finalizer (rc_spec c)) ||
  (rs_deleting (rc_spec c) && match rp_term (rc_status c) with Some true => true | _ => false end).

(* C18 / C05: an exit is declared finished (Terminating condition Completed, phase Disabled, Progressing condition Completed) only when
   the BatchRelease is gone and the in-progress marker has been removed from the workload *)
Definition exit_declared (old new : ro_status) : bool :=
  (match rp_term new, rp_term old with Some true, Some true => false | Some true, _ => true | _, _ => false end) ||
  (rphase_eqb (rp_phase new) RpDisabled && rphase_eqb (rp_phase old) RpDisabling) ||
  (match rp_prog new, rp_prog old with
   | Some (PrCompleted, _, _), Some (PrFinalising, _, _) | Some (PrCompleted, _, _), Some (PrCancelling, _, _) => true
   | _, _ => false end).
(* position of a task in the order of a reason; the persisted finalising step says which tasks already completed *)
Fixpoint pos_of (t : ftask) (l : list ftask) (i : nat) : option nat :=
  match l with [] => None | a :: r => if ftask_eqb t a then Some i else pos_of t r (S i) end.
Definition release_not_yet_done (r : freason) (fin : ftask) : bool :=
  match fin with
  | FtNone => true
  | _ => match pos_of fin (canary_tasks r) O, pos_of FtRelease (canary_tasks r) O with
         | Some i, Some j => Nat.leb i j
         | _, _ => true end
  end.
Definition exit_reason (old : ro_status) : freason :=
  match rp_phase old, rp_prog old with
  | RpTerminating, _ => FrDelete
  | RpDisabling, _ => FrDisabled
  | _, Some (PrCancelling, _, _) => FrRollback
  | _, _ => FrSuccess
  end.
Definition exit_means_clean (c : case) : bool :=
  let o := rc_obs c in
  match rp_sub (rc_status c) with
  | Some u =>
    if exit_declared (rc_status c) (ob_status o) && negb (ftask_eqb (su_fin u) FtEnd) &&
       (* persisted states in which ReleaseWorkloadControl has already completed cannot have a BatchRelease left *)
       release_not_yet_done (exit_reason (rc_status c)) (su_fin u) then
      match ob_br o with None => true | Some _ => false end &&
      (negb (ob_anno o) || negb (wl_exists (rc_wl c) && wl_consistent (rc_wl c)))
    else true
  | None => true      (* nothing was ever started: no BatchRelease, no marker, belongs to this Rollout *)
  end.

(* C18, the converse: the teardown never goes quiet.  A deleting Rollout that keeps its finalizer after a reconcile has
   failed (retried with back-off), asked for a requeue, or changed its own status (which wakes it through its own watch) *)
Definition c18_never_stalls (c : case) : bool :=
  let o := rc_obs c in
  if rs_deleting (rc_spec c) && rs_finalizer (rc_spec c) && negb (ob_gone o) && ob_finalizer o && negb (ob_panic o)
  then ob_err o || ob_requeue o || negb (rstatus_eqb (rc_status c) (ob_status o)) else true.

(* C02 and plan edits: while the current step of the edited plan still covers the released replicas, the rollout stays at that
   step and does not become Ready by the edit (Proofs/RolloutSM.v: recalc_current_step_covers) *)
Definition c02_plan_edit_is_no_way_around_the_pause (c : case) : bool :=
  let sp := rc_spec c in let o := rc_obs c in let w := rc_wl c in
  match rp_phase (rc_status c), rp_prog (rc_status c), rp_sub (rc_status c), rc_br c with
  | RpProgressing, Some (PrInRolling, _, _), Some u, Some b =>
    let plan_changed := negb (sempty (su_hash u)) && negb (String.eqb (su_hash u) (rs_hash sp)) in
    if plan_changed && negb (rs_paused sp) && negb (rs_deleting sp) && negb (rs_disabled sp) && wl_exists w && wl_consistent w &&
       String.eqb (wl_canary w) (su_canary_rev u) && negb (ob_panic o) && negb (ob_err o) && negb (ob_gone o) &&
       (1 <=? su_idx u) && (su_idx u <=? nsteps sp) && negb (su_next u =? su_idx u)
    then match br_partition b with
         | Some p => match znth (br_batches b) p, get_step sp (su_idx u), rp_sub (ob_status o) with
                     | Some cr, Some cur, Some v =>
                       if scaled true cr (wl_replicas w) <=? scaled true (sp_replicas cur) (wl_replicas w)
                       then (su_idx v =? su_idx u) && (sstate_eqb (su_state v) StInit || sstate_eqb (su_state v) StTraffic)
                       else true
                     | _, _, _ => true end
         | None => true end
    else true
  | _, _, _, _ => true
  end.

(* ---------- C07: a quiet reconcile is waiting for somebody else ----------
   A reconcile that changes nothing (status, BatchRelease, workload annotation), reports no error and asks for no requeue
   will not run again by itself.  That is legitimate only while the next move is somebody else's: the workload controller's
   (workload missing / status lagging), the BatchRelease controller's (this step's plan is in place and not yet reported
   Ready), or the user's (spec.paused, a pause without duration, a hand-written state).  Anything else is a wait for a
   wake-up that will not come. *)
Definition br_waiting (sp : ro_spec) (u : sub) (w : wl) (br : option brel) : bool :=
  match br with
  | Some b => br_spec_eqb b (desired_br sp (rollout_id w) (su_idx u - 1) (wl_in_rollback w) br) &&
              (negb (br_consistent b) || negb (br_state_ready b) || (br_batch b + 1 <? su_idx u))
  | None => false end.
Definition manual_pause (sp : ro_spec) (u : sub) (shortcut : bool) : bool :=
  match get_step sp (su_idx u) with
  | Some cur => negb (shortcut && (nsteps sp =? su_idx u) && ios_eqb (sp_replicas cur) (IPct 100)) &&
                match sp_pause cur with None => true | Some _ => false end
  | None => false end.
Definition waits_rolling (sp : ro_spec) (u : sub) (w : wl) (br : option brel) : bool :=
  match su_state u with
  | StUpgrade => br_waiting sp u w br
  | StPaused => manual_pause sp u true
  | StOther => true
  | _ => false end.
Definition waits_on (sp : ro_spec) (st : ro_status) (w : wl) (br : option brel) : bool :=
  match rp_phase st with
  | RpProgressing =>
    negb (wl_exists w) || negb (wl_consistent w) ||
    match rp_prog st with
    | Some (PrInRolling, _, _) =>
      match rp_sub st with Some u => let u1 := observed_sub w u in waits_rolling sp u1 w (synced_br u1 br) | None => false end
    | Some (PrPaused, _, _) => rs_paused sp
    | Some (PrOther, _, _) => true
    | _ => false end
  | RpTerminating | RpDisabling => false
  | _ => true
  end.
Definition quiet_obs (c : case) : bool :=
  let o := rc_obs c in
  negb (ob_panic o) && negb (ob_gone o) && negb (ob_err o) && negb (ob_requeue o) &&
  rstatus_eqb (rc_status c) (ob_status o) && opt_eqb br_eqb (rc_br c) (ob_br o) &&
  Bool.eqb (wl_exists (rc_wl c) && wl_in_progress (rc_wl c)) (ob_anno o).
Definition c07_quiet_means_waiting (c : case) : bool :=
  if quiet_obs c && negb (rs_deleting (rc_spec c)) then waits_on (rc_spec c) (rc_status c) (rc_wl c) (rc_br c) else true.

Definition in_domain (c : case) : bool :=
  let sp := rc_spec c in
  negb (Nat.eqb (List.length (rs_steps sp)) 0) &&
  forallb (fun s => match sp_replicas s with IInt z => 0 <? z | IPct p => (0 <? p) && (p <=? 100) | IBad => false end) (rs_steps sp).

Definition judge (c : case) : list verdict :=
  if negb (in_domain c) then [] else
  let o := rc_obs c in
  (if corresponds c then VOk else VMismatch) ::
  (* a BatchRelease owned by the Rollout always carries a batchPartition inside its own plan while the Rollout is rolling;
     a hand-edited BatchRelease is not an API state the property covers *)
  clause "C09_no_panic(rollout reconcile)"
    (negb (ob_panic o) ||
     match rc_br c, rp_prog (rc_status c), rp_sub (rc_status c) with
     | Some b, Some (PrInRolling, _, _), Some u =>
       negb (sempty (su_hash u)) && negb (String.eqb (su_hash u) (rs_hash (rc_spec c))) &&      (* only recalculateCanaryStep reads it *)
       match br_partition b with
       | None => true
       | Some p => (p <? 0) || (zlen (br_batches b) <=? p) end
     | _, _, _ => false end) ::
  (if ob_panic o || ob_gone o then [] else
   [ clause "C02_steps_are_gated" (c02_gated c);
     clause "C02_paused_no_progress" (c02_paused c);
     clause "C02_partition_raise_authorised" (c02_partition c);
     clause "C02_plan_edit_is_no_way_around_the_pause" (c02_plan_edit_is_no_way_around_the_pause c);
     clause "C10_rollback_and_supersession_dispatch" (c10_dispatch c);
     clause "C07_quiet_reconcile_is_waiting_for_someone" (c07_quiet_means_waiting c) ]) ++
  [ clause "C18_rollout_finalizer_guard" (c18_finalizer c);
    clause "C18_rollout_teardown_never_stalls" (c18_never_stalls c) ] ++
  (if ob_panic o || ob_gone o then [] else
   [ clause "C18_exit_declared_only_when_clean" (exit_means_clean c);
     clause "C05_exit_declared_only_when_clean" (exit_means_clean c) ]).

Definition tag (c : case) : string :=
  match reconcile (rc_spec c) (rc_status c) (rc_wl c) (rc_br c) with
  | RPanic => "panic"
  | ROut m =>
    match o_status m with
    | None => "status-not-written"
    | Some s => if rstatus_eqb s (rc_status c) && opt_eqb br_eqb (o_br m) (rc_br c) then "no-change"
                else if cursor_eqb (cursor s) (cursor (rc_status c)) then "status-or-br-change" else "cursor-moved"
    end
  end.

(* which observable differs (debugging aid for the correspondence) *)
Definition diag (c : case) : list string :=
  let o := rc_obs c in
  match reconcile (rc_spec c) (rc_status c) (rc_wl c) (rc_br c) with
  | RPanic => if ob_panic o then [] else ["model panics"]
  | ROut m =>
    let ms := match o_status m with Some s => s | None => rc_status c end in
    (if ob_panic o then ["impl panics"] else []) ++
    (if negb (o_finalizer m) || Bool.eqb (o_err m) (ob_err o) then [] else ["err"]) ++
    (if (if o_finalizer m then negb (ob_gone o) && ob_finalizer o else (ob_gone o || negb (ob_finalizer o))) then [] else ["finalizer"]) ++
    (if ob_gone o || rstatus_eqb ms (ob_status o) then [] else ["status"]) ++
    (if rp_obs_gen ms =? rp_obs_gen (ob_status o) then [] else ["obs_gen"]) ++
    (if opt_eqb prog_eqb (rp_prog ms) (rp_prog (ob_status o)) then [] else ["prog"]) ++
    (if opt_eqb Bool.eqb (rp_term ms) (rp_term (ob_status o)) then [] else ["term"]) ++
    (if opt_eqb Bool.eqb (rp_succ ms) (rp_succ (ob_status o)) then [] else ["succ"]) ++
    (if opt_eqb sub_eqb (rp_sub ms) (rp_sub (ob_status o)) then [] else ["sub"]) ++
    (if opt_eqb br_eqb (o_br m) (ob_br o) then [] else ["br"]) ++
    (if Bool.eqb (wl_exists (rc_wl c) && wl_in_progress (rc_wl c) && negb (o_remove_progress_anno m)) (ob_anno o) then [] else ["anno"]) ++
    (if Bool.eqb (o_requeue m) (ob_requeue o) then [] else ["requeue"])
  end.
