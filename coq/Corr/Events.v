(* Correspondence and property oracles for the events engine (C07: wake-ups). *)
From RV Require Export Base.Util Base.IntStr Model.Events.

Inductive hkind := HBrWorkload | HBrPod | HRoWorkload | HRoBr.
Record ev_in := { ei_handler : hkind; ei_event : evkind; ei_brs : list brref; ei_ros : list roref; ei_old : wobj; ei_new : wobj;
                  ei_has_owner : bool; ei_old_pod : podobs; ei_new_pod : podobs; ei_br_name : string }.
Definition case := (ev_in * (bool * list string))%type.

Definition model (i : ev_in) : list string :=
  match ei_handler i, ei_event i with
  | HBrWorkload, EvUpdate => br_on_workload_update (ei_brs i) (ei_old i) (ei_new i)
  | HBrWorkload, _ => br_on_workload_create_or_delete (ei_brs i) (ei_new i)
  | HBrPod, EvUpdate => br_on_pod_update (ei_brs i) (if ei_has_owner i then Some (ei_new i) else None) (ei_old_pod i) (ei_new_pod i)
  | HBrPod, EvCreate => br_on_pod_create (ei_brs i) (if ei_has_owner i then Some (ei_new i) else None)
  | HBrPod, EvDelete => []
  | HRoWorkload, _ => ro_on_workload_event (ei_ros i) (ei_new i)
  | HRoBr, k => ro_on_batchrelease_event k (ei_br_name i)
  end.

Definition corresponds (c : case) : bool :=
  let '(i, (panic, enq)) := c in negb panic && list_eqb String.eqb (model i) enq.

(* the wake-ups C07's waiting theorems rely on, on what the real handlers did *)
Definition claimed_by (w : wobj) : option string := match wo_ctl w with CiBatchRelease n => if sempty n then None else Some n | _ => None end.
Definition wakeups_come (c : case) : bool :=
  let '(i, (panic, enq)) := c in
  match ei_handler i, ei_event i with
  | HBrWorkload, EvUpdate =>
    (* a claimed workload whose generation or counted status changed wakes its BatchRelease *)
    match claimed_by (ei_new i) with
    | Some n => if negb (wo_rv (ei_new i) =? wo_rv (ei_old i)) &&
                   (negb (wo_gen (ei_old i) =? wo_gen (ei_new i)) || negb (wstatus_eqb (wo_status (ei_old i)) (wo_status (ei_new i))))
                then existsb (String.eqb n) enq else true
    | None => true end
  | HBrPod, EvUpdate =>
    match claimed_by (ei_new i) with
    | Some n => if ei_has_owner i && negb (po_rv (ei_old_pod i) =? po_rv (ei_new_pod i)) && negb (Bool.eqb (po_ready (ei_old_pod i)) (po_ready (ei_new_pod i)))
                then existsb (String.eqb n) enq else true
    | None => true end
  | HRoWorkload, _ => if existsb (ro_targets (ei_new i)) (ei_ros i) then negb (Nat.eqb (List.length enq) 0) else true
  | HRoBr, EvUpdate => existsb (String.eqb (ei_br_name i)) enq
  | _, _ => true
  end.

Definition judge (c : case) : list verdict :=
  [ if corresponds c then VOk else VMismatch;
    clause "C09_event_handler_no_panic" (negb (fst (snd c)));
    clause "C07_the_wake_up_for_a_waiting_controller_comes" (wakeups_come c) ].

Definition tag (c : case) : string :=
  let '(i, (panic, enq)) := c in
  (match ei_handler i with HBrWorkload => "br-workload" | HBrPod => "br-pod" | HRoWorkload => "ro-workload" | HRoBr => "ro-br" end) ++
  (match enq with [] => "/nothing" | _ => "/enqueued" end).
