(* Correspondence and property oracles for the rolloutbg engine: the rolloutsm cases with the blue-green strategy. *)
From RV Require Export Base.Util Base.IntStr Model.RolloutSM Model.RolloutBG Corr.RolloutSM.

Definition case := ro_case.

Definition corresponds_bg (c : case) : bool :=
  let o := rc_obs c in
  match reconcile_bg (rc_spec c) (rc_status c) (rc_wl c) (rc_br c) with
  | RPanic => ob_panic o
  | ROut m =>
    negb (ob_panic o) && (negb (o_finalizer m) || Bool.eqb (o_err m) (ob_err o)) &&
    (if o_finalizer m then negb (ob_gone o) && ob_finalizer o else (ob_gone o || negb (ob_finalizer o))) &&
    (ob_gone o || status_matches (rc_spec c) (match o_status m with Some s => s | None => rc_status c end) (ob_status o)) &&
    opt_eqb br_eqb (o_br m) (ob_br o) &&
    Bool.eqb (wl_exists (rc_wl c) && wl_in_progress (rc_wl c) && negb (o_remove_progress_anno m)) (ob_anno o) &&
    Bool.eqb (o_requeue m) (ob_requeue o)
  end.

(* the gate of C02 for the blue-green step machine: init / upgrade lead to traffic routing only behind a BatchRelease that
   reports this step's pods Ready *)
Definition c02_bg_gated (c : case) : bool :=
  let o := rc_obs c in
  match rp_sub (rc_status c), rp_sub (ob_status o), rp_prog (rc_status c) with
  | Some u, Some v, Some (PrInRolling, _, _) =>
    if rphase_eqb (rp_phase (rc_status c)) RpProgressing && negb (user_cause (rc_spec c) (rc_status c) (rc_wl c)) && negb (rs_paused (rc_spec c)) &&
       negb (rs_deleting (rc_spec c)) && negb (rs_disabled (rc_spec c)) &&
       (su_idx u =? su_idx v) && (sstate_eqb (su_state u) StInit || sstate_eqb (su_state u) StUpgrade) && sstate_eqb (su_state v) StTraffic
    then let u1 := observed_sub (rc_wl c) u in br_ready_for (rc_spec c) u1 (rc_wl c) (synced_br u1 (rc_br c))
    else true
  | _, _, _ => true
  end.

Definition judge (c : case) : list verdict :=
  [ if corresponds_bg c then VOk else VMismatch;
    (* as for canary: a hand-edited BatchRelease (partition nil or outside its plan) read by recalculateCanaryStep is not an
       API state the property covers *)
    clause "C09_bluegreen_reconcile_does_not_panic"
      (negb (ob_panic (rc_obs c)) || negb (in_domain c) ||
       match rc_br c, rp_prog (rc_status c), rp_sub (rc_status c) with
       | Some b, Some (PrInRolling, _, _), Some u =>
         negb (sempty (su_hash u)) && negb (String.eqb (su_hash u) (rs_hash (rc_spec c))) &&
         match br_partition b with None => true | Some p => (p <? 0) || (zlen (br_batches b) <=? p) end
       | _, _, _ => false end);
    clause "C02_bluegreen_steps_are_gated" (c02_bg_gated c) ].

Definition tag (c : case) : string :=
  match reconcile_bg (rc_spec c) (rc_status c) (rc_wl c) (rc_br c) with
  | RPanic => "panic"
  | ROut m => match o_status m with None => "status-not-written" | Some s => if rstatus_eqb s (rc_status c) then "no-change" else "changed" end
  end.

Definition diag_bg (c : case) : list string :=
  let o := rc_obs c in
  match reconcile_bg (rc_spec c) (rc_status c) (rc_wl c) (rc_br c) with
  | RPanic => if ob_panic o then [] else ["model-panics"]
  | ROut m =>
    (if ob_panic o then ["impl-panics"] else []) ++
    (if (negb (o_finalizer m) || Bool.eqb (o_err m) (ob_err o)) then [] else ["err"]) ++
    (if (ob_gone o || status_matches (rc_spec c) (match o_status m with Some s => s | None => rc_status c end) (ob_status o)) then [] else ["status"]) ++
    (if opt_eqb br_eqb (o_br m) (ob_br o) then [] else ["br"]) ++
    (if Bool.eqb (wl_exists (rc_wl c) && wl_in_progress (rc_wl c) && negb (o_remove_progress_anno m)) (ob_anno o) then [] else ["anno"]) ++
    (if Bool.eqb (o_requeue m) (ob_requeue o) then [] else ["requeue"])
  end.
