(* Correspondence and property oracles for the rolloutbg engine: the rolloutsm cases with the blue-green strategy. *)
From RV Require Export Base.Util Base.IntStr Model.RolloutSM Model.RolloutBG Corr.RolloutSM.

Definition case := ro_case.

Definition corresponds_bg (c : case) : bool :=
  let o := rc_obs c in
  match reconcile_bg (rc_spec c) (rc_status c) (rc_wl c) (rc_br c) with
  | RPanic => ob_panic o
  | ROut m =>
    negb (ob_panic o) && (negb (o_finalizer m) || Bool.eqb (o_err m) (ob_err o)) &&
    (if o_finalizer m then negb (ob_gone o) && ob_finalizer o else (ob_gone o || negb (ob_finalizer o))) &&
    (ob_gone o || status_matches (rc_spec c) (match o_status m with Some s => s | None => rc_status c end) (ob_status o)) &&
    opt_eqb br_eqb (o_br m) (ob_br o) &&
    Bool.eqb (wl_exists (rc_wl c) && wl_in_progress (rc_wl c) && negb (o_remove_progress_anno m)) (ob_anno o) &&
    Bool.eqb (o_requeue m) (ob_requeue o)
  end.

(* the gated path of the blue-green step machine.  It differs from the canary one in two places: Init falls through into
   the upgrade (so Init may reach traffic routing in one reconcile, behind the same gate), and there is NO "last step at 100%"
   shortcut out of a pause -- in blue-green, leaving the last pause is what authorises routing everything to the new version
   and scaling the old one down *)
Definition gated_sub_bg (sp : ro_spec) (u : sub) (w : wl) (br : option brel) (v : sub) : bool :=
  let same_idx := su_idx v =? su_idx u in
  match su_state u, su_state v with
  | StInit, StUpgrade => same_idx
  | StInit, StTraffic | StUpgrade, StTraffic => same_idx && br_ready_for sp u w br
  | StTraffic, StMetrics => same_idx
  | StMetrics, StPaused => same_idx
  | StPaused, StReady =>
    same_idx && match get_step sp (su_idx u) with
                | Some stp => match sp_pause stp with Some d => su_elapsed u || (d <=? 0) | None => false end
                | None => false end
  | StReady, StInit => (su_idx v =? su_idx u + 1) && (su_idx u <? nsteps sp)
  | StReady, StCompleted => same_idx && (nsteps sp <=? su_idx u)
  | _, _ => false
  end.

Definition gated_transition_bg (sp : ro_spec) (old : ro_status) (w : wl) (br : option brel) (new : ro_status) : bool :=
  match rp_sub old, rp_sub new with
  | Some u, Some v => let u1 := observed_sub w u in gated_sub_bg sp u1 w (synced_br u1 br) v
  | _, _ => false
  end.

Definition c02_bg_gated (c : case) : bool :=
  let o := rc_obs c in
  negb (rphase_eqb (rp_phase (rc_status c)) RpProgressing) ||
  cursor_eqb (cursor (rc_status c)) (cursor (ob_status o)) ||
  user_cause (rc_spec c) (rc_status c) (rc_wl c) ||
  gated_transition_bg (rc_spec c) (rc_status c) (rc_wl c) (rc_br c) (ob_status o).

(* C07 for blue-green: what a quiet reconcile may be waiting for.  No shortcut out of the last pause; a new revision during a
   blue-green release is refused until the user rolls back (that wait is the user's) *)
Definition waits_rolling_bg (sp : ro_spec) (u : sub) (w : wl) (br : option brel) : bool :=
  match su_state u with
  | StUpgrade => br_waiting sp u w br
  | StPaused => manual_pause sp u false
  | StOther => true
  | _ => false end.
Definition waits_on_bg (sp : ro_spec) (st : ro_status) (w : wl) (br : option brel) : bool :=
  match rp_phase st with
  | RpProgressing =>
    negb (wl_exists w) || negb (wl_consistent w) ||
    match rp_prog st with
    | Some (PrInRolling, _, _) =>
      match rp_sub st with
      | Some u => let u1 := observed_sub w u in
                  waits_rolling_bg sp u1 w (synced_br u1 br) ||
                  (negb (sempty (su_canary_rev u)) && negb (String.eqb (wl_canary w) (su_canary_rev u)) && negb (wl_in_rollback w) && negb (rs_paused sp))
      | None => false end
    | Some (PrPaused, _, _) => rs_paused sp
    | Some (PrOther, _, _) => true
    | _ => false end
  | RpTerminating | RpDisabling => false
  | _ => true
  end.
Definition c07_quiet_means_waiting_bg (c : case) : bool :=
  if quiet_obs c && negb (rs_deleting (rc_spec c)) then waits_on_bg (rc_spec c) (rc_status c) (rc_wl c) (rc_br c) else true.

(* C03 for blue-green: a step enters its traffic-routing state from Init / Upgrade only behind pods reported ready *)
Definition c03_bg_traffic_behind_ready (c : case) : bool :=
  let o := rc_obs c in
  match rp_sub (rc_status c), rp_sub (ob_status o) with
  | Some u, Some v =>
    let u1 := observed_sub (rc_wl c) u in
    if rphase_eqb (rp_phase (rc_status c)) RpProgressing && negb (user_cause (rc_spec c) (rc_status c) (rc_wl c)) &&
       (su_idx v =? su_idx u) &&
       match su_state u, su_state v with StInit, StTraffic | StUpgrade, StTraffic => true | _, _ => false end
    then br_ready_for (rc_spec c) u1 (rc_wl c) (synced_br u1 (rc_br c)) else true
  | _, _ => true
  end.

Definition judge (c : case) : list verdict :=
  [ if corresponds_bg c then VOk else VMismatch;
    clause "C03_bluegreen_traffic_step_only_behind_ready_pods" (negb (in_domain c) || ob_panic (rc_obs c) || c03_bg_traffic_behind_ready c);
    (* as for canary: a hand-edited BatchRelease (partition nil or outside its plan) read by recalculateCanaryStep is not an
       API state the property covers *)
    clause "C09_bluegreen_reconcile_does_not_panic"
      (negb (ob_panic (rc_obs c)) || negb (in_domain c) ||
       match rc_br c, rp_prog (rc_status c), rp_sub (rc_status c) with
       | Some b, Some (PrInRolling, _, _), Some u =>
         negb (sempty (su_hash u)) && negb (String.eqb (su_hash u) (rs_hash (rc_spec c))) &&
         match br_partition b with None => true | Some p => (p <? 0) || (zlen (br_batches b) <=? p) end
       | _, _, _ => false end);
    clause "C02_bluegreen_steps_are_gated" (c02_bg_gated c);
    clause "C10_bluegreen_refuses_supersession"
      (match rp_sub (rc_status c), rp_prog (rc_status c), rp_phase (rc_status c) with
       | Some u, Some (PrInRolling, _, _), RpProgressing =>
         let w := rc_wl c in let sp := rc_spec c in
         if negb (ob_panic (rc_obs c)) && wl_exists w && wl_consistent w && negb (rs_paused sp) && negb (rs_deleting sp) && negb (rs_disabled sp) &&
            negb (sempty (su_canary_rev u)) && negb (String.eqb (wl_canary w) (su_canary_rev u)) && negb (wl_in_rollback w)
         then opt_eqb br_eqb (rc_br c) (ob_br (rc_obs c)) && cursor_eqb (cursor (rc_status c)) (cursor (ob_status (rc_obs c)))
         else true
       | _, _, _ => true end);
    clause "C07_quiet_bluegreen_reconcile_is_waiting_for_someone" (negb (in_domain c) || ob_panic (rc_obs c) || c07_quiet_means_waiting_bg c) ].

Definition tag (c : case) : string :=
  match reconcile_bg (rc_spec c) (rc_status c) (rc_wl c) (rc_br c) with
  | RPanic => "panic"
  | ROut m => match o_status m with None => "status-not-written" | Some s => if rstatus_eqb s (rc_status c) then "no-change" else "changed" end
  end.

Definition diag_bg (c : case) : list string :=
  let o := rc_obs c in
  match reconcile_bg (rc_spec c) (rc_status c) (rc_wl c) (rc_br c) with
  | RPanic => if ob_panic o then [] else ["model-panics"]
  | ROut m =>
    (if ob_panic o then ["impl-panics"] else []) ++
    (if (negb (o_finalizer m) || Bool.eqb (o_err m) (ob_err o)) then [] else ["err"]) ++
    (if (ob_gone o || status_matches (rc_spec c) (match o_status m with Some s => s | None => rc_status c end) (ob_status o)) then [] else ["status"]) ++
    (if opt_eqb br_eqb (o_br m) (ob_br o) then [] else ["br"]) ++
    (if Bool.eqb (wl_exists (rc_wl c) && wl_in_progress (rc_wl c) && negb (o_remove_progress_anno m)) (ob_anno o) then [] else ["anno"]) ++
    (if Bool.eqb (o_requeue m) (ob_requeue o) then [] else ["requeue"])
  end.
