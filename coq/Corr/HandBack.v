(* Correspondence and property oracles for the handback engine: Initialize / UpgradeBatch / Finalize of the blue-green
   control planes through the real wrappers, with the n-th Patch of the scenario failing (C05, C06). *)
From RV Require Export Base.Util Base.IntStr Model.HandBack.

Record hbcase := {
  h_kind : bgkind; h_n : Z; h_partitioned : bool; h_phases : list phase; h_fault : fault; h_start : bgw;
  h_errs : list (list bool); h_final : bgw; h_panic : bool;
  h_init_claimed : bool; h_init_hpa_off : bool; h_init_rs_held : bool     (* read back after the Initialize phase *)
}.
Definition case := hbcase.

Definition model (c : case) : list (list bool) * bgw := scenario (h_kind c) (h_n c) (h_partitioned c) (h_phases c) (h_fault c) (h_start c).

Definition corresponds (c : case) : bool :=
  let '(errs, w) := model c in
  negb (h_panic c) && list_eqb (list_eqb Bool.eqb) errs (h_errs c) && bgw_eqb w (h_final c).

(* the last attempt of every phase succeeded *)
Definition all_phases_done (errs : list (list bool)) : bool :=
  forallb (fun l => match rev l with false :: _ => true | _ => false end) errs.

(* C05 / C06: once Finalize has succeeded on a release that is really over, the workload and its HPA are as the user
   configured them -- whichever API call failed on the way *)
Definition c05_handed_back (c : case) : bool :=
  if negb (h_panic c) && negb (h_partitioned c) && fresh (h_start c) && all_phases_done (h_errs c)
  then handed_back (h_kind c) (h_start c) (h_final c) else true.

(* what Initialize leaves behind, by the model *)
Definition after_init (c : case) : bgw := snd (scenario (h_kind c) (h_n c) (h_partitioned c) [PInit] (h_fault c) (h_start c)).
Definition prepared (k : bgkind) (w : bgw) : bool * bool * bool :=
  (w_claimed w, match w_hpa w with Some false => false | _ => true end,
   match k, w_rs_min_ready w with BGDeploy, Some m => m =? max_ready | _, _ => true end).
Definition init_corresponds (c : case) : bool :=
  let '(a, b, d) := prepared (h_kind c) (after_init c) in
  Bool.eqb a (h_init_claimed c) && Bool.eqb b (h_init_hpa_off c) && Bool.eqb d (h_init_rs_held c).
(* C06: the release marker is the LAST thing Initialize writes -- once it is there (a later attempt returns at once), the HPA is
   detached and the stable ReplicaSet is held back, whichever call failed on the way *)
Definition c06_marker_means_prepared (c : case) : bool :=
  if h_init_claimed c && fresh (h_start c) && negb (h_panic c) then h_init_hpa_off c && h_init_rs_held c else true.

Definition judge (c : case) : list verdict :=
  [ if corresponds c && init_corresponds c then VOk else VMismatch;
    clause "C06_bluegreen_release_marker_means_prepared" (c06_marker_means_prepared c);
    clause "C05_bluegreen_workload_handed_back_as_configured" (c05_handed_back c);
    clause "C06_bluegreen_handed_back_whatever_call_failed" (match h_fault c with Some _ => c05_handed_back c | None => true end);
    clause "C09_bluegreen_control_plane_does_not_panic" (negb (h_panic c)) ].

Definition tag (c : case) : string :=
  ((match h_kind c with BGDeploy => "deployment" | BGClone => "cloneset" end) ++
   (match h_fault c with Some _ => "/fault" | None => "" end) ++
   (if h_partitioned c then "/partitioned" else "") ++
   (match w_hpa (h_start c) with Some _ => "/hpa" | None => "" end))%string.
