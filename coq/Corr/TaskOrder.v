(* Correspondence and property oracles for the taskorder engine: the finalising task order handed out by the real
   nextCanaryTask / nextBlueGreenTask, walked from a persisted cursor to END, against the tables the translator reads out of
   the source (gen/TaskTables.v), with the C04 order clauses evaluated on what the functions really return. *)
From RV Require Export Base.Util gen.TaskTables.

Record tocase := { to_bluegreen : bool; to_reason : reason; to_start : option task; to_walk : list task; to_bad : bool }.
Definition case := tocase.

Definition task_eqb (a b : task) : bool :=
  match a, b with
  | TRouteNew, TRouteNew | TRouteStable, TRouteStable | TRestoreStable, TRestoreStable | TRemoveCanarySvc, TRemoveCanarySvc
  | TResume, TResume | TRelease, TRelease | TWaitEndless, TWaitEndless | TEnd, TEnd => true
  | _, _ => false
  end.
(* what follows the cursor in an order *)
Fixpoint after (t : task) (l : list task) : list task :=
  match l with [] => [] | x :: l' => if task_eqb x t then l' else after t l' end.
Definition table_walk (bg : bool) (r : reason) (start : option task) : list task :=
  let order := if bg then bluegreen_order r else canary_order r in
  match start with None => order | Some t => after t order end.

Fixpoint pos (x : task) (l : list task) (i : nat) : option nat :=
  match l with [] => None | y :: l' => if task_eqb x y then Some i else pos x l' (S i) end.
Definition precedes (a b : task) (l : list task) : bool :=
  match pos a l 0, pos b l 0 with Some i, Some j => Nat.ltb i j | _, _ => false end.
Definition once (x : task) (l : list task) : bool := Nat.eqb (List.length (filter (task_eqb x) l)) 1.
Definition cleanup_tasks : list task := [TRouteStable; TRestoreStable; TRemoveCanarySvc; TResume; TRelease].

Definition judge (c : case) : list verdict :=
  let w := to_walk c in
  (if list_eqb task_eqb (table_walk (to_bluegreen c) (to_reason c) (to_start c)) w && negb (to_bad c) then VOk else VMismatch) ::
  match to_start c with
  | Some _ => []
  | None =>
    [ clause "C04_route_withdrawn_before_the_service_is_removed" (precedes TRouteStable TRemoveCanarySvc w);
      clause "C04_unpinned_before_pods_are_replaced"
        (match to_reason c with RRollback => precedes TRouteStable TResume w | _ => precedes TRestoreStable TResume w end);
      clause "C04_every_cleanup_task_runs_once" (forallb (fun t => once t w) cleanup_tasks);
      clause "C10_traffic_back_before_the_workload_is_touched"
        (match to_reason c with RRollback | RContinuous => precedes TRouteStable TResume w && precedes TRouteStable TRelease w | _ => true end) ]
  end.

Definition tag (c : case) : string :=
  ((if to_bluegreen c then "bluegreen/" else "canary/") ++
   match to_reason c with RSuccess => "success" | RRollback => "rollback" | RContinuous => "continuous" | RDisabled => "disabled" | RDelete => "delete" end ++
   match to_start c with None => "/whole" | Some _ => "/from-cursor" end)%string.
