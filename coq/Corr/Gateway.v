(* Correspondence and property oracles for the gateway engine (C13, and the fixed-point part of C07). *)
From RV Require Export Base.Util Base.IntStr Model.Gateway.

Inductive gop := OEnsure (s : gstrategy) | OFinalise.
Record gobs := { go_panic : bool; go_flag : bool; go_rules : list rule;
                 go_probe_flag : bool; go_probe_rules : list rule }.   (* probe: the same call repeated once *)
Record gcase := { gc_conf : gconf; gc_orig : list rule; gc_ops : list gop; gc_obs : list gobs }.
Definition case := gcase.

Definition rules_eqb := list_eqb rule_eqb.

(* model of one operation followed by its probe *)
Definition model_op (c : gconf) (rules : list rule) (op : gop) : option (bool * list rule * bool * list rule) :=
  match op with
  | OEnsure s => match ensure c rules s with
                 | None => None
                 | Some (f, r1) => match ensure c r1 s with
                                   | None => None
                                   | Some (f2, r2) => Some (f, r1, f2, r2)
                                   end
                 end
  | OFinalise => let '(f, r1) := finalise c rules in let '(f2, r2) := finalise c r1 in Some (f, r1, f2, r2)
  end.

Fixpoint corresponds (c : gconf) (rules : list rule) (ops : list gop) (obs : list gobs) : bool :=
  match ops, obs with
  | [], [] => true
  | op :: ops', o :: obs' =>
    match model_op c rules op with
    | None => go_panic o
    | Some (f, r1, f2, r2) =>
      negb (go_panic o) && Bool.eqb f (go_flag o) && rules_eqb r1 (go_rules o) &&
      Bool.eqb f2 (go_probe_flag o) && rules_eqb r2 (go_probe_rules o) && corresponds c r2 ops' obs'
    end
  | _, _ => false
  end.

(* ---------- property clauses ---------- *)
Definition other_refs (c : gconf) (r : rule) : list bref :=
  filter (fun b => negb (is_svc (g_stable c) b) && negb (is_svc (g_canary c) b)) (r_refs r).
Definition ref_weight (name : string) (r : rule) : option (option Z) :=
  match get_ref name r with Some (_, b) => Some (b_weight b) | None => None end.
Definition has_ref (name : string) (r : rule) : bool := match get_ref name r with Some _ => true | None => false end.

(* weight step w: exact split on every rule that targets the stable Service, other backends untouched *)
Definition exact_split (c : gconf) (w : Z) (before after : list rule) : bool :=
  Nat.eqb (List.length before) (List.length after) &&
  forallb (fun ba => let '(b, a) := ba in
     if has_ref (g_stable c) b then
       opt_eqb (opt_eqb Z.eqb) (ref_weight (g_stable c) a) (Some (Some (100 - w))) &&
       opt_eqb (opt_eqb Z.eqb) (ref_weight (g_canary c) a) (Some (Some w)) &&
       list_eqb bref_eqb (other_refs c b) (other_refs c a) &&
       list_eqb hmatch_eqb (r_matches b) (r_matches a) && String.eqb (r_rest b) (r_rest a)
     else true) (combine before after).
(* rules that do not reference the stable Service are never altered *)
Definition unrelated_untouched (c : gconf) (before after : list rule) : bool :=
  forallb (fun b => has_ref (g_stable c) b || has_ref (g_canary c) b || existsb (rule_eqb b) after) before.

(* match step: every generated canary rule is narrow *)
Definition is_generated (c : gconf) (r : rule) : bool :=
  match r_refs r with [b] => is_svc (g_canary c) b | _ => false end.
Definition allowed_matches (ms : list hmatch) (o : rule) : list hmatch :=
  map path_only (filter has_path ms) ++
  flat_map (fun base => map (add_user base) (filter (fun m => negb (has_path m)) ms)) (r_matches o).
Definition narrow (c : gconf) (ms : list hmatch) (before after : list rule) : bool :=
  forallb (fun r => negb (is_generated c r) ||
     (negb (Nat.eqb (List.length (r_matches r)) 0) &&
      existsb (fun o => has_ref (g_stable c) o && String.eqb (r_rest o) (r_rest r) &&
                        forallb (fun m => existsb (hmatch_eqb m) (allowed_matches ms o)) (r_matches r)) before)) after.

(* every rule the user wrote is still there (weights aside, canary reference aside) *)
Definition strip (b : bref) : bref := {| b_kind := b_kind b; b_name := b_name b; b_weight := None; b_rest := b_rest b |}.
Definition user_refs (c : gconf) (r : rule) : list bref := map strip (filter (fun b => negb (is_svc (g_canary c) b)) (r_refs r)).
Definition user_rules_kept (c : gconf) (orig after : list rule) : bool :=
  forallb (fun o => existsb (fun r => list_eqb hmatch_eqb (r_matches o) (r_matches r) && String.eqb (r_rest o) (r_rest r) &&
                                      list_eqb bref_eqb (user_refs c o) (user_refs c r)) after) orig.
Definition no_canary_left (c : gconf) (after : list rule) : bool := forallb (fun r => negb (has_ref (g_canary c) r)) after.
Definition nothing_generated (orig after : list rule) : bool := Nat.leb (List.length after) (List.length orig).

(* regions of known findings *)
Definition f4_region (orig : list rule) : bool := existsb (fun r => match r_refs r with [] => true | _ => false end) orig.

Definition is_weight_step (s : gstrategy) : option Z := match s_matches s, s_weight s with [], Some w => Some w | _, _ => None end.

(* clauses of one operation, evaluated on what the implementation produced *)
Definition op_clauses (c : gconf) (orig before : list rule) (op : gop) (o : gobs) : list verdict :=
  let after := go_rules o in
  clause "C13_no_panic" (negb (go_panic o)) ::
  (if go_panic o then [] else
  clause "C07_provider_fixed_point(gateway)"
     (rules_eqb after (go_probe_rules o) && match op with OEnsure _ => go_probe_flag o | OFinalise => negb (go_probe_flag o) end) ::
  match op with
  | OEnsure s =>
    match is_weight_step s with
    | Some w => [ clause "C13_exact_split" (exact_split c w before after);
                  (* C03: once the provider reports the step as routed (second call: "verified"), the stored route carries exactly the step's share *)
                  clause "C03_routed_means_exact(gateway provider)" (negb (go_probe_flag o) || exact_split c w before (go_probe_rules o));
                  clause "C13_unrelated_rules_untouched" (unrelated_untouched c before after);
                  clause "C13_originals_kept" (user_rules_kept c orig after) ]
    | None => match s_matches s with
              | [] => []
              | ms => [ clause "C13_canary_rule_is_narrow" (narrow c ms before after);
                        clause "C13_unrelated_rules_untouched" (unrelated_untouched c before after);
                        clause "C13_originals_kept" (user_rules_kept c orig after) ]
              end
    end
  | OFinalise =>
    [ clause "C13_finalise_removes_canary" (no_canary_left c after && nothing_generated orig after);
      clause "C05_gateway_route_carries_no_canary_reference_after_the_exit" (no_canary_left c after && nothing_generated orig after);
      clause_known "C13_finalise_keeps_user_rules" "C13:F4" (f4_region orig) (user_rules_kept c orig after) ]
  end).

Fixpoint trace_clauses (c : gconf) (orig before : list rule) (ops : list gop) (obs : list gobs) : list verdict :=
  match ops, obs with
  | op :: ops', o :: obs' => op_clauses c orig before op o ++ trace_clauses c orig (go_probe_rules o) ops' obs'
  | _, _ => []
  end.

(* domain: rule names distinct from each other; the user's original rules do not reference the canary Service *)
Definition in_domain (g : gcase) : bool :=
  negb (String.eqb (g_stable (gc_conf g)) (g_canary (gc_conf g))) &&
  forallb (fun r => negb (has_ref (g_canary (gc_conf g)) r) &&
                    negb (Nat.eqb (List.length (r_matches r)) 0)) (gc_orig g).   (* the CRD defaults an absent match list to PathPrefix / *)

Definition judge (g : case) : list verdict :=
  if negb (in_domain g) then [] else
  (if corresponds (gc_conf g) (gc_orig g) (gc_ops g) (gc_obs g) then VOk else VMismatch) ::
  trace_clauses (gc_conf g) (gc_orig g) (gc_orig g) (gc_ops g) (gc_obs g).

Definition tag (g : case) : string :=
  let w := existsb (fun op => match op with OEnsure s => match is_weight_step s with Some _ => true | None => false end | _ => false end) (gc_ops g) in
  let m := existsb (fun op => match op with OEnsure s => match s_matches s with [] => false | _ => true end | _ => false end) (gc_ops g) in
  let touches := existsb (has_ref (g_stable (gc_conf g))) (gc_orig g) in
  if negb touches then "no-stable-rule" else
  if w && m then "weight+match-sequence" else if w then "weight-only" else if m then "match-only" else "finalise-only".
