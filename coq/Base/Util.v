(* Shared vocabulary: strings, Go-like integer parsing, verdicts of the correspondence check. *)
From Coq Require Export List ZArith Bool String Ascii Lia.
Export ListNotations.
Open Scope string_scope.
Open Scope list_scope.
Open Scope Z_scope.

(* ---------- strings ---------- *)
Definition srev (s : string) : string := string_of_list_ascii (rev (list_ascii_of_string s)).
(* strings.HasSuffix s suf *)
Definition has_suffix (s suf : string) : bool := String.prefix (srev suf) (srev s).
Definition has_prefix (s pre : string) : bool := String.prefix pre s.
Definition sempty (s : string) : bool := match s with EmptyString => true | _ => false end.

Definition digit_of (c : ascii) : option Z :=
  let n := Z.of_nat (nat_of_ascii c) in
  if (48 <=? n) && (n <=? 57) then Some (n - 48) else None.

Fixpoint digits_val (l : list ascii) (acc : Z) : option Z :=
  match l with
  | [] => Some acc
  | c :: l' => match digit_of c with Some d => digits_val l' (acc * 10 + d) | None => None end
  end.

Definition int64_max : Z := 9223372036854775807.
Definition int32_max : Z := 2147483647.

(* strconv.Atoi on a 64-bit platform: optional sign, then one or more decimal digits; out of
   int64 range is an error. *)
Definition atoi (s : string) : option Z :=
  let l := list_ascii_of_string s in
  let '(neg, ds) := match l with
                    | "-"%char :: r => (true, r)
                    | "+"%char :: r => (false, r)
                    | _ => (false, l) end in
  match ds with
  | [] => None
  | _ => match digits_val ds 0 with
         | Some v => let v' := if neg then - v else v in
                     if (- int64_max - 1 <=? v') && (v' <=? int64_max) then Some v' else None
         | None => None
         end
  end.

Fixpoint string_of_pos_fuel (fuel : nat) (z : Z) (acc : string) : string :=
  match fuel with
  | O => acc
  | S f => let d := z mod 10 in
           let acc' := String (ascii_of_nat (Z.to_nat (48 + d))) acc in
           if z / 10 =? 0 then acc' else string_of_pos_fuel f (z / 10) acc'
  end.
(* strconv.Itoa *)
Definition itoa (z : Z) : string :=
  if z <? 0 then String "-"%char (string_of_pos_fuel 80 (- z) "") else string_of_pos_fuel 80 z "".

(* ---------- option / list helpers ---------- *)
Definition opt_eqb {A} (e : A -> A -> bool) (a b : option A) : bool :=
  match a, b with Some x, Some y => e x y | None, None => true | _, _ => false end.
Fixpoint list_eqb {A} (e : A -> A -> bool) (a b : list A) : bool :=
  match a, b with
  | [], [] => true
  | x :: a', y :: b' => e x y && list_eqb e a' b'
  | _, _ => false
  end.
Definition count {A} (f : A -> bool) (l : list A) : Z := Z.of_nat (List.length (filter f l)).
Definition zlen {A} (l : list A) : Z := Z.of_nat (List.length l).
Definition znth {A} (l : list A) (i : Z) : option A := if i <? 0 then None else nth_error l (Z.to_nat i).
Fixpoint zupd {A} (l : list A) (i : nat) (f : A -> A) : list A :=
  match l, i with
  | [], _ => []
  | x :: l', O => f x :: l'
  | x :: l', S i' => x :: zupd l' i' f
  end.
Fixpoint zseq (start : Z) (n : nat) : list Z :=
  match n with O => [] | S n' => start :: zseq (start + 1) n' end.

(* ---------- outcomes of modelled Go code ---------- *)
Inductive outcome (A : Type) := Ok (a : A) | Err (a : A) | Panic.
Arguments Ok {A} _. Arguments Err {A} _. Arguments Panic {A}.

(* ---------- verdicts of the correspondence check ---------- *)
Inductive verdict :=
  | VOk
  | VMismatch                 (* model output <> observed implementation output *)
  | VViol (clause : string)   (* property oracle false on the implementation's output *)
  | VKnown (id : string).     (* oracle false, but the input lies in a listed known finding's region *)

Definition is_ok (v : verdict) : bool := match v with VOk => true | _ => false end.

Fixpoint number_from {A} (i : Z) (l : list A) : list (Z * A) :=
  match l with [] => [] | x :: l' => (i, x) :: number_from (i + 1) l' end.

(* all non-OK verdicts, with the index of the case *)
Definition run_cases {C} (judge : C -> list verdict) (cases : list C) : list (Z * verdict) :=
  flat_map (fun ic => map (fun v => (fst ic, v)) (filter (fun v => negb (is_ok v)) (judge (snd ic))))
           (number_from 0 cases).

(* a property clause evaluated on an implementation output *)
Definition clause (name : string) (b : bool) : verdict := if b then VOk else VViol name.
Definition clause_known (name id : string) (known_region b : bool) : verdict :=
  if b then VOk else if known_region then VKnown id else VViol name.

(* tag histogram *)
Fixpoint bump (t : string) (h : list (string * Z)) : list (string * Z) :=
  match h with
  | [] => [(t, 1)]
  | (t', n) :: h' => if String.eqb t t' then (t', n + 1) :: h' else (t', n) :: bump t h'
  end.
Definition histogram (tags : list string) : list (string * Z) := fold_left (fun h t => bump t h) tags [].
