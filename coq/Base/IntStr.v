(* k8s.io/apimachinery intstr.IntOrString and GetScaledValueFromIntOrPercent.
   The harness maps a Go IntOrString to: IInt v (Type=Int), IPct p (Type=String, "<p>%" with p
   accepted by strconv.Atoi), IBad (any other string).  The Go code computes through float64;
   for |p*total| < 2^53 that computation is exact (trusted base), and equals the integer
   formulas below. *)
From RV Require Import Base.Util.

Inductive ios := IInt (z : Z) | IPct (p : Z) | IBad.

Definition ios_eqb (a b : ios) : bool :=
  match a, b with
  | IInt x, IInt y => x =? y
  | IPct x, IPct y => x =? y
  | IBad, IBad => true
  | _, _ => false
  end.

Definition ceil_div100 (a : Z) : Z := - ((- a) / 100).
Definition floor_div100 (a : Z) : Z := a / 100.

(* value, and whether an error was returned (callers in /repo mostly ignore the error) *)
Definition scaled_err (round_up : bool) (v : ios) (total : Z) : Z * bool :=
  match v with
  | IInt z => (z, false)
  | IPct p => ((if round_up then ceil_div100 (p * total) else floor_div100 (p * total)), false)
  | IBad => (0, true)
  end.
Definition scaled (round_up : bool) (v : ios) (total : Z) : Z := fst (scaled_err round_up v total).

Lemma ceil_div100_spec a : 100 * (ceil_div100 a) >= a /\ 100 * (ceil_div100 a) < a + 100.
Proof. unfold ceil_div100. pose proof (Z.div_mod (- a) 100 ltac:(lia)).
  pose proof (Z.mod_pos_bound (- a) 100 ltac:(lia)). lia. Qed.
Lemma floor_div100_spec a : 100 * (floor_div100 a) <= a /\ a < 100 * (floor_div100 a) + 100.
Proof. unfold floor_div100. pose proof (Z.div_mod a 100 ltac:(lia)).
  pose proof (Z.mod_pos_bound a 100 ltac:(lia)). lia. Qed.
Global Opaque ceil_div100 floor_div100.
