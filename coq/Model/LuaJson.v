(* Model of the value conversion around a Lua plugin call (pkg/util/luamanager/lua.go: decodeValue; json.go: DecodeValue,
   Encode / jsonValue.MarshalJSON) and of gopher-lua's table iteration order (LTable.Append, RawSetH, Next) as far as
   the encoder depends on it.  Numbers are integers (exactly representable doubles). *)
From RV Require Import Base.Util.

Inductive json :=
| JNull | JBool (b : bool) | JNum (z : Z) | JStr (s : string)
| JArr (l : list json)
| JObj (m : list (string * json)).            (* keys distinct (a Go map) *)

Inductive lkey := KStr (s : string) | KNum (z : Z) | KBool (b : bool).
Inductive lval :=
| LNil | LBool (b : bool) | LNum (z : Z) | LStr (s : string)
| LFun                                          (* functions, userdata, threads, channels: not encodable *)
| LTab (arr : list lval) (hash : list (lkey * lval)).   (* array part (may hold nil holes), hash part in insertion order *)

(* decodeValue / DecodeValue: Append ignores nil, RawSetH with nil deletes *)
Fixpoint decode (v : json) : lval :=
  match v with
  | JNull => LNil
  | JBool b => LBool b
  | JNum z => LNum z
  | JStr s => LStr s
  | JArr l => LTab (filter (fun x => match x with LNil => false | _ => true end) (map decode l)) []
  | JObj m => LTab [] (filter (fun kv => match snd kv with LNil => false | _ => true end) (map (fun kv => (KStr (fst kv), decode (snd kv))) m))
  end.

(* LTable.Next: the non-nil array entries with their 1-based index, then the hash entries that still have a value.
   Encode / MarshalJSON: the first key decides array or object mode; array keys must be exactly 1, 2, 3, ...; object keys
   must all be strings; an empty table is null.  None = an error is returned (sparse array, mixed or invalid keys,
   a value that cannot be encoded).  Cyclic tables (errNested) cannot be written in this tree model. *)
Definition finish (es : list (lkey * option json)) : option json :=
  match es with
  | [] => Some JNull
  | (KNum _, _) :: _ =>
    (fix go (expected : Z) (l : list (lkey * option json)) (acc : list json) : option json :=
       match l with
       | [] => Some (JArr (rev acc))
       | (KNum k, Some j) :: t => if k =? expected then go (expected + 1) t (j :: acc) else None
       | _ => None
       end) 1 es []
  | (KStr _, _) :: _ =>
    (fix go (l : list (lkey * option json)) (acc : list (string * json)) : option json :=
       match l with
       | [] => Some (JObj (rev acc))
       | (KStr k, Some j) :: t => go t ((k, j) :: acc)
       | _ => None
       end) es []
  | (KBool _, _) :: _ => None
  end.

Fixpoint encode (v : lval) : option json :=
  match v with
  | LNil => Some JNull
  | LBool b => Some (JBool b)
  | LNum z => Some (JNum z)
  | LStr s => Some (JStr s)
  | LFun => None
  | LTab arr hash =>
    let enc_arr := (fix go (l : list lval) (i : Z) : list (lkey * option json) :=
                      match l with
                      | [] => []
                      | x :: t => match x with LNil => go t (i + 1) | _ => (KNum i, encode x) :: go t (i + 1) end
                      end) in
    let enc_hash := (fix go (l : list (lkey * lval)) : list (lkey * option json) :=
                       match l with
                       | [] => []
                       | (k, x) :: t => match x with LNil => go t | _ => (k, encode x) :: go t end
                       end) in
    finish (enc_arr arr 1 ++ enc_hash hash)
  end.

(* what a value looks like after decode + encode: the documented losses (null members and elements vanish, an empty
   container becomes null) *)
Definition is_null (v : json) : bool := match v with JNull => true | _ => false end.
Fixpoint norm (v : json) : json :=
  match v with
  | JArr l =>
    match (fix go (l : list json) : list json :=
             match l with [] => [] | x :: t => if is_null x then go t else norm x :: go t end) l with
    | [] => JNull
    | l' => JArr l'
    end
  | JObj m =>
    match (fix go (m : list (string * json)) : list (string * json) :=
             match m with [] => [] | (k, x) :: t => if is_null x then go t else (k, norm x) :: go t end) m with
    | [] => JNull
    | m' => JObj m'
    end
  | x => x
  end.
(* values that survive unchanged: no null inside a container, no empty container *)
Fixpoint lossless (v : json) : bool :=
  match v with
  | JArr l => negb (match l with [] => true | _ => false end) &&
              (fix go (l : list json) : bool := match l with [] => true | x :: t => negb (is_null x) && lossless x && go t end) l
  | JObj m => negb (match m with [] => true | _ => false end) &&
              (fix go (m : list (string * json)) : bool := match m with [] => true | (k, x) :: t => negb (is_null x) && lossless x && go t end) m
  | _ => true
  end.
