(* Model of one BatchRelease reconcile (batchrelease_controller.go Reconcile, batchrelease_executor.go,
   batchrelease_status.go, partitionstyle/control_plane.go + cloneset/control.go) for a CloneSet released
   in partition style, without rollout-id and without rollback-in-batches. *)
From RV Require Import Base.Util Base.IntStr Model.BatchArith.

Inductive brphase := PhInitial | PhPreparing | PhProgressing | PhFinalizing | PhCompleted | PhOther (s : string).
Inductive bstate := SUpgrading | SVerifying | SReady | SEmpty | SOther (s : string).

Definition brphase_eqb (a b : brphase) : bool :=
  match a, b with
  | PhInitial, PhInitial | PhPreparing, PhPreparing | PhProgressing, PhProgressing | PhFinalizing, PhFinalizing | PhCompleted, PhCompleted => true
  | PhOther x, PhOther y => String.eqb x y | _, _ => false end.
Definition bstate_eqb (a b : bstate) : bool :=
  match a, b with
  | SUpgrading, SUpgrading | SVerifying, SVerifying | SReady, SReady | SEmpty, SEmpty => true
  | SOther x, SOther y => String.eqb x y | _, _ => false end.

Record br_spec := {
  sp_plan : list ios; sp_partition : option Z; sp_ft : option ios;
  sp_hash : string;                 (* util.HashReleasePlanBatches of the current spec, computed by the harness *)
  sp_deleting : bool; sp_finalizer : bool; sp_generation : Z
}.
Record br_status := {
  bs_phase : brphase; bs_batch : Z; bs_state : bstate; bs_ready_time : bool;
  bs_stable : string; bs_update : string; bs_hash : string; bs_obs_replicas : Z;
  bs_updated : Z; bs_updated_ready : Z; bs_obs_gen : Z;
  bs_cond : bool                    (* a Progressing condition is present *)
}.
Inductive ctl := CtlNone | CtlMine | CtlOther.
Record cloneset := {
  w_exists : bool; w_replicas : Z; w_gen : Z; w_obs_gen : Z;
  w_st_replicas : Z; w_st_updated : Z; w_st_updated_ready : Z;
  w_update_rev : string; w_current_rev : string;
  w_partition : option ios; w_paused : bool; w_ctl : ctl
}.

Definition status_eqb (a b : br_status) : bool :=
  brphase_eqb (bs_phase a) (bs_phase b) && (bs_batch a =? bs_batch b) && bstate_eqb (bs_state a) (bs_state b) &&
  Bool.eqb (bs_ready_time a) (bs_ready_time b) && String.eqb (bs_stable a) (bs_stable b) && String.eqb (bs_update a) (bs_update b) &&
  String.eqb (bs_hash a) (bs_hash b) && (bs_obs_replicas a =? bs_obs_replicas b) &&
  (bs_updated a =? bs_updated b) && (bs_updated_ready a =? bs_updated_ready b) && (bs_obs_gen a =? bs_obs_gen b) &&
  Bool.eqb (bs_cond a) (bs_cond b).

(* record update helpers *)
Definition set_phase (s : br_status) (p : brphase) : br_status :=
  {| bs_phase := p; bs_batch := bs_batch s; bs_state := bs_state s; bs_ready_time := bs_ready_time s; bs_stable := bs_stable s;
     bs_update := bs_update s; bs_hash := bs_hash s; bs_obs_replicas := bs_obs_replicas s; bs_updated := bs_updated s;
     bs_updated_ready := bs_updated_ready s; bs_obs_gen := bs_obs_gen s; bs_cond := bs_cond s |}.
Definition set_batch (s : br_status) (b : Z) (st : bstate) (rt : bool) : br_status :=
  {| bs_phase := bs_phase s; bs_batch := b; bs_state := st; bs_ready_time := rt; bs_stable := bs_stable s;
     bs_update := bs_update s; bs_hash := bs_hash s; bs_obs_replicas := bs_obs_replicas s; bs_updated := bs_updated s;
     bs_updated_ready := bs_updated_ready s; bs_obs_gen := bs_obs_gen s; bs_cond := bs_cond s |}.
Definition set_revs (s : br_status) (stable update : string) (obsr : Z) : br_status :=
  {| bs_phase := bs_phase s; bs_batch := bs_batch s; bs_state := bs_state s; bs_ready_time := bs_ready_time s; bs_stable := stable;
     bs_update := update; bs_hash := bs_hash s; bs_obs_replicas := obsr; bs_updated := bs_updated s;
     bs_updated_ready := bs_updated_ready s; bs_obs_gen := bs_obs_gen s; bs_cond := bs_cond s |}.
Definition set_counts (s : br_status) (u ur : Z) (h : string) : br_status :=
  {| bs_phase := bs_phase s; bs_batch := bs_batch s; bs_state := bs_state s; bs_ready_time := bs_ready_time s; bs_stable := bs_stable s;
     bs_update := bs_update s; bs_hash := h; bs_obs_replicas := bs_obs_replicas s; bs_updated := u;
     bs_updated_ready := ur; bs_obs_gen := bs_obs_gen s; bs_cond := bs_cond s |}.
Definition set_gen_cond (s : br_status) (g : Z) (c : bool) : br_status :=
  {| bs_phase := bs_phase s; bs_batch := bs_batch s; bs_state := bs_state s; bs_ready_time := bs_ready_time s; bs_stable := bs_stable s;
     bs_update := bs_update s; bs_hash := bs_hash s; bs_obs_replicas := bs_obs_replicas s; bs_updated := bs_updated s;
     bs_updated_ready := bs_updated_ready s; bs_obs_gen := g; bs_cond := c |}.

(* resetStatus *)
Definition reset_status (s : br_status) : br_status :=
  {| bs_phase := PhPreparing; bs_batch := 0; bs_state := SEmpty; bs_ready_time := false; bs_stable := ""; bs_update := "";
     bs_hash := ""; bs_obs_replicas := -1; bs_updated := 0; bs_updated_ready := 0; bs_obs_gen := bs_obs_gen s; bs_cond := bs_cond s |}.
Definition empty_status : br_status :=
  {| bs_phase := PhInitial; bs_batch := 0; bs_state := SEmpty; bs_ready_time := false; bs_stable := ""; bs_update := "";
     bs_hash := ""; bs_obs_replicas := 0; bs_updated := 0; bs_updated_ready := 0; bs_obs_gen := 0; bs_cond := false |}.

Inductive wl_event := EvNormal | EvGone | EvReconciling | EvReplicasChanged | EvRollbackInBatch | EvTemplateChanged.

(* SyncWorkloadInformation *)
Definition sync_workload (sp : br_spec) (st : br_status) (w : cloneset) : wl_event * bool (* info available *) :=
  if sp_deleting sp then (EvNormal, false) else
  if negb (w_exists w) then (EvGone, false) else
  if w_obs_gen w <? w_gen w then (EvReconciling, true) else
  if w_st_replicas w =? w_st_updated w then (EvNormal, true) else
  if negb (bs_obs_replicas st =? -1) && negb (w_replicas w =? bs_obs_replicas st) then (EvReplicasChanged, true) else
  if negb (sempty (bs_update st)) && String.eqb (w_update_rev w) (w_current_rev w) &&
     String.eqb (bs_stable st) (w_update_rev w) && negb (String.eqb (bs_stable st) (bs_update st)) then (EvRollbackInBatch, true) else
  if negb (sempty (bs_update st)) && negb (String.eqb (w_update_rev w) (bs_update st)) then (EvTemplateChanged, true) else
  (EvNormal, true).

Definition is_progressing (s : br_status) : bool := brphase_eqb (bs_phase s) PhProgressing.

(* the batch context of the CloneSet partition control, from BatchArith *)
Definition arith_of (sp : br_spec) (st : br_status) (w : cloneset) : arith_in :=
  {| a_kind := CloneSetK; a_plan := sp_plan sp; a_n := w_replicas w; a_cur := bs_batch st; a_noneed := None; a_knob := w_partition w |}.

(* BatchContext.IsBatchReady with no rollout-id (the label clause is vacuous) *)
Definition is_batch_ready (desired updated updated_ready : Z) (ft : option ios) : bool :=
  let allowed := match ft with Some v => scaled true v updated | None => 0 end in
  (desired <=? updated) && (desired <=? allowed + updated_ready) && negb ((0 <? desired) && (updated_ready =? 0)).

Inductive requeue := RqNone | RqAfter.
Record br_result := {
  r_status : br_status; r_workload : cloneset; r_finalizer : bool; r_requeue : requeue; r_err : bool;
  r_upgraded : option Z       (* the batch for which UpgradeBatch ran its partition logic in this reconcile *)
}.

Definition with_knob (w : cloneset) (part : option ios) (paused : bool) (c : ctl) : cloneset :=
  {| w_exists := w_exists w; w_replicas := w_replicas w; w_gen := w_gen w; w_obs_gen := w_obs_gen w; w_st_replicas := w_st_replicas w;
     w_st_updated := w_st_updated w; w_st_updated_ready := w_st_updated_ready w; w_update_rev := w_update_rev w;
     w_current_rev := w_current_rev w; w_partition := part; w_paused := paused; w_ctl := c |}.

(* outcome of the plan execution: status, workload, requeue, error, panic *)
Inductive exec_out := ExecPanic | Exec (s : br_status) (w : cloneset) (rq : requeue) (err : bool) (up : option Z).

Definition move_to_next (sp : br_spec) (s : br_status) : br_status :=
  let b := match sp_partition sp with
           | None => bs_batch s + 1
           | Some p => if bs_batch s <? p then bs_batch s + 1 else bs_batch s end in
  set_batch s b SUpgrading (bs_ready_time s).

Definition is_partitioned (sp : br_spec) (old : br_status) : bool :=
  match sp_partition sp with Some p => p <=? bs_batch old | None => false end.

Definition execute (sp : br_spec) (old : br_status) (s : br_status) (w : cloneset) : exec_out :=
  let do_prepare (s : br_status) :=
      if negb (w_exists w) then Exec s w RqNone true None else
      let w' := match w_ctl w with CtlMine => w | _ => with_knob w (Some (IPct 100)) false CtlMine end in
      Exec (set_phase (set_revs s (w_current_rev w) (w_update_rev w) (w_replicas w)) PhProgressing) w' RqAfter false None in
  match bs_phase s with
  | PhPreparing => do_prepare s
  | PhProgressing =>
    if negb (w_exists w) then Exec s w RqNone true None else
    let do_upgrade (s : br_status) :=
        if w_replicas w =? 0 then Exec (set_gen_cond (set_batch s (bs_batch s) SVerifying (bs_ready_time s)) (bs_obs_gen s) false) w RqAfter false None else
        match calc_ctx (arith_of sp s w) with
        | None => ExecPanic
        | Some c =>
          let w' := match upgrade CloneSetK c (w_replicas w) with Some k' => with_knob w (Some k') (w_paused w) (w_ctl w) | None => w end in
          Exec (set_gen_cond (set_batch s (bs_batch s) SVerifying (bs_ready_time s)) (bs_obs_gen s) false) w' RqAfter false (Some (bs_batch s))
        end in
    let ready (s : br_status) : option bool :=
        if w_replicas w =? 0 then Some true else
        match calc_ctx (arith_of sp s w) with
        | None => None
        | Some c => Some (is_batch_ready (c_desired c) (w_st_updated w) (w_st_updated_ready w) (sp_ft sp))
        end in
    match bs_state s with
    | SUpgrading => do_upgrade s
    | SVerifying =>
      match ready s with
      | None => ExecPanic
      | Some false => Exec (set_batch s (bs_batch s) SUpgrading (bs_ready_time s)) w RqNone true None
      | Some true => Exec (set_batch s (bs_batch s) SReady true) w RqAfter false None
      end
    | SReady =>
      match ready s with
      | None => ExecPanic
      | Some false => Exec (set_batch s (bs_batch s) SUpgrading false) w RqNone true None
      | Some true => if is_partitioned sp old then Exec s w RqNone false None
                     else Exec (move_to_next sp s) w RqAfter false None
      end
    | _ => do_upgrade (set_batch s (bs_batch s) SUpgrading (bs_ready_time s))
    end
  | PhFinalizing =>
    if negb (w_exists w) then Exec (set_phase s PhCompleted) w RqNone false None else
    let w' := match sp_partition sp with
              | None => with_knob w None false CtlNone
              | Some _ => with_knob w (w_partition w) (w_paused w) CtlNone end in
    Exec (set_phase s PhCompleted) w' RqNone false None
  | PhCompleted => Exec s w RqNone false None
  | _ => do_prepare (set_phase s PhPreparing)
  end.

(* syncStatusBeforeExecuting up to refreshStatus: the synchronised status and whether this round stops *)
Definition sync_status (sp : br_spec) (st : br_status) (w : cloneset) : br_status * bool :=
  let s0 := match bs_phase st with PhInitial => reset_status st | _ => st end in
  let '(ev, has_info) := sync_workload sp s0 w in
  let prog := is_progressing st in
  let '(s1, stop) :=
      if brphase_eqb (bs_phase st) PhCompleted then (s0, true)
      else if sp_deleting sp || brphase_eqb (bs_phase st) PhFinalizing || match sp_partition sp with None => true | Some _ => false end
           then (set_phase s0 PhFinalizing, false)
      else if negb (String.eqb (bs_hash st) (sp_hash sp)) && prog then
           (* signalRecalculate (rollout-id unchanged) *)
           let b := match sp_partition sp with Some p => Z.min p (zlen (sp_plan sp) - 1) | None => 0 end in
           (set_counts (set_batch s0 b SUpgrading false) (bs_updated s0) (bs_updated_ready s0) (sp_hash sp), false)
      else if (zlen (sp_plan sp) <=? bs_batch st) && prog then (set_gen_cond (reset_status s0) 0 false, false)   (* signalRestartAll: a fresh status *)
      else match ev with
           | EvGone => if negb (brphase_eqb (bs_phase st) PhInitial) && negb (brphase_eqb (bs_phase st) (PhOther "Initial"))
                       then (set_phase s0 PhFinalizing, false) else (s0, false)
           | EvReplicasChanged => if prog then (set_revs (set_batch s0 (bs_batch s0) SUpgrading false) (bs_stable s0) (bs_update s0) (w_replicas w), false) else (s0, false)
           | EvTemplateChanged => if prog then (set_revs s0 (bs_stable s0) (w_update_rev w) (bs_obs_replicas s0), true) else (s0, false)
           | EvReconciling => (s0, true)
           | EvRollbackInBatch => if prog then (s0, true) else (s0, false)
           | EvNormal => (s0, false)
           end in
  (* refreshStatus *)
  (set_counts s1 (if has_info then w_st_updated w else bs_updated s1) (if has_info then w_st_updated_ready w else bs_updated_ready s1)
              (if sempty (bs_hash s1) then sp_hash sp else bs_hash s1), stop).

(* one Reconcile *)
Definition reconcile (sp : br_spec) (st : br_status) (w : cloneset) : option br_result :=
  (* handleFinalizer *)
  if sp_deleting sp && brphase_eqb (bs_phase st) PhCompleted && sp_finalizer sp then
    Some {| r_status := st; r_workload := w; r_finalizer := false; r_requeue := RqNone; r_err := false; r_upgraded := None |}
  else
  let '(s2, stop) := sync_status sp st w in
  let need_retry := negb (status_eqb st s2) in
  let finish (s : br_status) (w' : cloneset) (rq : requeue) (err : bool) (up : option Z) :=
      Some {| r_status := set_gen_cond s (sp_generation sp) (bs_cond s); r_workload := w'; r_finalizer := true; r_requeue := rq; r_err := err; r_upgraded := up |} in
  if need_retry then finish s2 w RqAfter false None
  else if stop then finish s2 w RqNone false None
  else match execute sp st s2 w with
       | ExecPanic => None
       | Exec s w' rq err up => finish s w' rq err up
       end.
