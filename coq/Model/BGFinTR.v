(* The finalising phases of a BLUE-GREEN Rollout with traffic routing: blueGreenReleaseManager.doCanaryFinalising
   (rollout_bluegreen.go) over the traffic manager of Model/TrafficMgr.v, reached from Progressing/Finalising (success),
   Progressing/Cancelling (rollback), Terminating (deleted) and Disabling.  The rolling part of a blue-green release with
   traffic is not modelled here. *)
From RV Require Import Base.Util Base.IntStr Model.RolloutSM Model.TrafficMgr Model.RolloutTR Model.RolloutBG.

Definition finalise_bgtr (t : tr_spec) (u : sub) (w : wl) (br : option brel) (r : freason) (wait_ready : bool) (n : net) (g : graces)
  : bool (* done *) * cout :=
  let mk u br ws g err := {| co_sub := u; co_br := br; co_requeue := false; co_writes := ws; co_graces := g; co_err := err |} in
  if ftask_eqb (su_fin u) FtEnd then (true, mk u br [] g false) else
  let nxt := bg_next_task r (su_fin u) in
  let u1 := match su_fin u with FtNone => upd_sub u (su_idx u) (su_next u) (su_state u) nxt false | _ => u end in
  let traffic (x : tres) :=
      if tr_err x then (false, mk u1 br (tr_writes x) (tr_graces x) true)
      else if negb (tr_ok x) then (false, mk u1 br (tr_writes x) (tr_graces x) false)
      else let u2 := upd_sub u1 (su_idx u1) (su_next u1) (su_state u1) nxt false in
           (ftask_eqb nxt FtEnd, mk u2 br (tr_writes x) (tr_graces x) false) in
  match su_fin u1 with
  | FtRouteStable => traffic (restore_gateway (mk_ctx t u1) n g)
  | FtRestoreStable => traffic (restore_stable_service (mk_ctx_w t u1 w) n g)
  | FtRemoveCanarySvc => traffic (remove_canary_service (mk_ctx t u1) n g)
  | FtOther => traffic (route_all_to_new (mk_ctx t u1) n g)          (* FinalisingStepRouteTrafficToNew *)
  | _ => let '(done, u', br') := finalise_bg (ts_sp t) u w br r wait_ready in (done, mk u' br' [] g false)
  end.

Definition do_finalising_bgtr (t : tr_spec) (s : ro_status) (w : wl) (br : option brel) (r : freason) (wait_ready : bool) (n : net) (g : graces)
  : bool * ro_status * brw * bool * list write * graces * bool :=
  match rp_sub s with
  | None => (true, s, br, false, [], g, false)
  | Some u => let '(done, o) := finalise_bgtr t u w br r wait_ready n g in
              (done, set_sub s (Some (co_sub o)), co_br o, wl_exists w && wl_consistent w && wl_in_progress w, co_writes o, co_graces o, co_err o)
  end.

(* which exit a persisted status is in; None: not a finalising state (outside this model) *)
Definition bg_exit (sp : ro_spec) (st : ro_status) : option (freason * bool) :=
  match rp_phase st with
  | RpProgressing => match rp_prog st with
                     | Some (PrFinalising, _, _) => Some (FrSuccess, true)
                     | Some (PrCancelling, _, _) => Some (FrRollback, false)
                     | _ => None end
  | RpTerminating => match rp_term st with Some false => Some (FrDelete, false) | _ => None end
  | RpDisabling => Some (FrDisabled, false)
  | _ => None
  end.

Definition reconcile_bgtr (t : tr_spec) (st : ro_status) (w : wl) (br : option brel) (n : net) (g : graces) : option tr_res :=
  let sp := ts_sp t in
  let fin := if rs_deleting sp then (if match rp_term st with Some true => true | _ => false end then false else rs_finalizer sp) else true in
  let plain (r : ro_res) := match r with RPanic => TrPanic | ROut o => TrOut {| t_out := o; t_writes := []; t_graces := g |} end in
  match bg_exit sp st with
  | None => None
  | Some (r, wait_ready) =>
    Some match calc_status sp st w with
    | CalcRetry => plain (reconcile sp st w br)
    | CalcStatus s =>
      let out status br anno rq err ws g' :=
          TrOut {| t_out := {| o_status := status; o_br := br; o_remove_progress_anno := anno; o_finalizer := fin; o_requeue := rq; o_err := err |};
                   t_writes := ws; t_graces := g' |} in
      if negb (rphase_eqb (rp_phase st) RpProgressing) && wl_exists w && negb (wl_consistent w) then out (Some s) br false true false [] g else
      if rphase_eqb (rp_phase st) RpProgressing && (negb (wl_exists w) || negb (wl_consistent w)) then out (Some s) br false false false [] g else
      let '(done, s1, br', anno, ws, g', err) := do_finalising_bgtr t s w br r wait_ready n g in
      if err then out None br anno false true ws g' else
      match rp_phase st with
      | RpProgressing =>
        if done then out (Some (set_succ (set_prog s1 PrCompleted false) (Some (match r with FrSuccess => true | _ => false end)))) br' anno false false ws g'
        else out (Some s1) br' anno true false ws g'
      | RpTerminating => out (Some (if done then set_term s1 (Some true) else s1)) br' anno (negb done) false ws g'
      | _ => out (Some (if done then set_rphase s1 RpDisabled else s1)) br' anno (negb done) false ws g'
      end
    end
  end.
