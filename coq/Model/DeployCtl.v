(* Model of one rolloutRolling sync of the advanced deployment controller
   (pkg/controller/deployment/rolling.go, util/deployment_util.go) for a Deployment whose new ReplicaSet exists
   and whose size is not being changed.  Old ReplicaSets are listed oldest first; their revisions increase with
   the position (the harness builds them so), which fixes the three sort orders the code uses. *)
From RV Require Import Base.Util Base.IntStr Model.BatchArith.

Record rs := { r_spec : Z; r_avail : Z }.
Record dstate := { d_n : Z; d_partition : ios; d_surge : option ios; d_unavail : option ios; d_new : rs; d_olds : list rs;
                   d_new_oldest : bool (* the new ReplicaSet was created before every old one (a rollback to an earlier revision) *);
                   d_no_ru : bool (* the strategy annotation has no rollingUpdate section: no surge, nothing may be unavailable *) }.

Definition sumspec (l : list rs) : Z := fold_right (fun r a => r_spec r + a) 0 l.
Definition sumavail (l : list rs) : Z := fold_right (fun r a => r_avail r + a) 0 l.

(* ResolveFenceposts / MaxSurge / MaxUnavailable *)
Definition fenceposts (d : dstate) : Z * Z :=
  if d_no_ru d then (0, 0) else
  let s := scaled true (match d_surge d with Some v => v | None => IInt 0 end) (d_n d) in
  let u := scaled false (match d_unavail d with Some v => v | None => IInt 0 end) (d_n d) in
  if (s =? 0) && (u =? 0) then (s, 1) else (s, u).
Definition max_surge (d : dstate) : Z := fst (fenceposts d).
Definition max_unavail (d : dstate) : Z := if d_n d =? 0 then 0 else Z.min (snd (fenceposts d)) (d_n d).
Definition limit (d : dstate) : Z := new_rs_limit (d_partition d) (d_n d).

(* NewRSNewReplicas *)
Definition new_rs_new_replicas (d : dstate) : Z :=
  let ns := r_spec (d_new d) in
  let cur := ns + sumspec (d_olds d) in
  if ns <? cur then
    if limit d <=? ns then ns else
    let max_total := d_n d + max_surge d in
    if max_total <=? cur then ns else
    Z.min (ns + Z.min (max_total - cur) (d_n d - ns)) (limit d)
  else d_n d.

Definition set_new (d : dstate) (x : Z) : dstate :=
  {| d_n := d_n d; d_partition := d_partition d; d_surge := d_surge d; d_unavail := d_unavail d;
     d_new := {| r_spec := x; r_avail := r_avail (d_new d) |}; d_olds := d_olds d; d_new_oldest := d_new_oldest d; d_no_ru := d_no_ru d |}.
Definition set_olds (d : dstate) (l : list rs) : dstate :=
  {| d_n := d_n d; d_partition := d_partition d; d_surge := d_surge d; d_unavail := d_unavail d; d_new := d_new d; d_olds := l;
     d_new_oldest := d_new_oldest d; d_no_ru := d_no_ru d |}.

(* reconcileNewReplicaSet: (scaled, state) *)
Definition reconcile_new (d : dstate) : bool * dstate :=
  let ns := r_spec (d_new d) in
  if ns =? d_n d then (false, d)
  else if d_n d <? ns then (true, set_new d (d_n d))
  else let x := new_rs_new_replicas d in (negb (x =? ns), set_new d x).

(* ScaleDownLimitForOld *)
Definition scale_down_limit (d : dstate) : Z := sumspec (d_olds d) - (d_n d - Z.max (limit d) (r_spec (d_new d))).

(* cleanupUnhealthyReplicas: oldest first, budget m; inactive (size 0) and fully available sets are skipped *)
Fixpoint cleanup (l : list rs) (m : Z) : list rs * Z :=
  match l with
  | [] => ([], 0)
  | r :: l' =>
    if m <=? 0 then (r :: l', 0) else
    if (r_spec r =? 0) || (r_spec r =? r_avail r) then let '(l2, t) := cleanup l' m in (r :: l2, t) else
    let dlt := Z.min m (r_spec r - r_avail r) in
    let '(l2, t) := cleanup l' (m - dlt) in ({| r_spec := r_spec r - dlt; r_avail := r_avail r |} :: l2, t + dlt)
  end.

(* scaleDownOldReplicaSetsForRollingUpdate.  The code sorts the active old ReplicaSets by revision, newest first, and
   then calls FindNewReplicaSet(allRSs), which sorts allRSs by creation time IN PLACE.  allRSs = append(oldRSs, newRS)
   shares its backing array with oldRSs whenever cap(oldRSs) > len(oldRSs), i.e. (Go's doubling append in
   FilterActiveReplicaSets) whenever the number of active old ReplicaSets is not a power of two.  In that case the slice
   the loop walks is "the first k ReplicaSets by creation time among the active old ones and the new one". *)
Fixpoint is_pow2_fuel (fuel : nat) (k : Z) : bool :=
  match fuel with O => false | S f => if k =? 1 then true else if (k <? 1) || negb (k mod 2 =? 0) then false else is_pow2_fuel f (k / 2) end.
Definition shares_backing (k : Z) : bool := negb (is_pow2_fuel 64 k).

Inductive slot := SNew | SOld (i : nat).
Fixpoint scale_slots (get : slot -> Z) (l : list slot) (m : Z) : list (slot * Z) :=     (* new sizes of the visited slots *)
  match l with
  | [] => []
  | x :: l' => if m <=? 0 then [] else if get x =? 0 then scale_slots get l' m else
               let dlt := Z.min (get x) m in (x, get x - dlt) :: scale_slots get l' (m - dlt)
  end.

(* scaleUpOldReplicaSets: the largest active old ReplicaSet, the oldest among equals, grows by c *)
Fixpoint argmax_first (l : list rs) (i : nat) (best : option (nat * Z)) : option nat :=
  match l with
  | [] => match best with Some (j, _) => Some j | None => None end
  | r :: l' =>
    let best' := if r_spec r <=? 0 then best else
                 match best with
                 | Some (_, v) => if v <? r_spec r then Some (i, r_spec r) else best
                 | None => Some (i, r_spec r) end in
    argmax_first l' (S i) best'
  end.
Definition scale_up_old (l : list rs) (c : Z) : list rs :=
  if c <=? 0 then l else
  match argmax_first l O None with
  | Some j => zupd l j (fun r => {| r_spec := r_spec r + c; r_avail := r_avail r |})
  | None => l
  end.

Definition apply_slot (d : dstate) (xs : slot * Z) : dstate :=
  match fst xs with
  | SNew => set_new d (snd xs)
  | SOld i => set_olds d (zupd (d_olds d) i (fun r => {| r_spec := snd xs; r_avail := r_avail r |}))
  end.

(* reconcileOldReplicaSets; [d0] is the state at the start of the sync (its active old ReplicaSets fix the slice) *)
Definition reconcile_old (d : dstate) : dstate :=
  let old_pods := sumspec (d_olds d) in
  if old_pods =? 0 then d else
  let all := r_spec (d_new d) + old_pods in
  let lim := scale_down_limit d in
  if lim <=? 0 then set_olds d (scale_up_old (d_olds d) (- lim)) else
  let min_avail := d_n d - max_unavail d in
  let new_unavail := r_spec (d_new d) - r_avail (d_new d) in
  let max_down := Z.min (all - min_avail - new_unavail) lim in
  if max_down <=? 0 then d else
  let active := filter (fun ir => 0 <? r_spec (snd ir)) (combine (seq 0 (List.length (d_olds d))) (d_olds d)) in
  let k := zlen active in
  let '(l1, _) := cleanup (d_olds d) max_down in
  let d1 := set_olds d l1 in
  let avail_count := r_avail (d_new d) + sumavail l1 in
  if avail_count <=? min_avail then d1 else
  let active_ids := map (fun ir => SOld (fst ir)) active in
  let walk := if shares_backing k
              then (if d_new_oldest d then firstn (Z.to_nat k) (SNew :: active_ids) else active_ids)
              else rev active_ids in
  let get (x : slot) := match x with SNew => r_spec (d_new d1) | SOld i => match nth_error l1 i with Some r => r_spec r | None => 0 end end in
  (* ScaleDownLimitForOld is evaluated on the (possibly corrupted) slice *)
  let lim1 := fold_right (fun x a => get x + a) 0 walk - (d_n d - Z.max (limit d) (r_spec (d_new d1))) in
  let cnt := Z.min (avail_count - min_avail) lim1 in
  fold_left apply_slot (scale_slots get walk cnt) d1.

(* rolloutRolling *)
Definition sync (d : dstate) : dstate :=
  let '(scaled_up, d1) := reconcile_new d in if scaled_up then d1 else reconcile_old d1.

(* ---------- C17 clauses, on a state before and after one sync ---------- *)
Definition kept_avail (r : rs) : Z := Z.min (r_avail r) (r_spec r).
Definition total_kept (d : dstate) : Z := kept_avail (d_new d) + fold_right (fun r a => kept_avail r + a) 0 (d_olds d).

(* the new ReplicaSet is never grown beyond what the partition allows (when old pods exist) *)
Definition p_new_within_partition (d d' : dstate) : bool :=
  implb (0 <? sumspec (d_olds d)) (r_spec (d_new d') <=? Z.max (r_spec (d_new d)) (limit d)).
(* the old ReplicaSets are never shrunk below what the partition reserves for them *)
Definition p_old_not_below_reserve (d d' : dstate) : bool :=
  Z.min (sumspec (d_olds d)) (d_n d - Z.max (limit d) (r_spec (d_new d))) <=? sumspec (d_olds d').
(* the new ReplicaSet is never scaled up so that the total exceeds replicas + maxSurge *)
Definition p_total_within_surge (d d' : dstate) : bool :=
  implb (r_spec (d_new d) <? r_spec (d_new d'))
        (implb (0 <? sumspec (d_olds d)) (r_spec (d_new d') + sumspec (d_olds d') <=? d_n d + max_surge d)).
(* available pods are never scaled down below replicas - maxUnavailable *)
Definition p_availability_budget (d d' : dstate) : bool :=
  Z.min (d_n d - max_unavail d) (total_kept d) <=? total_kept d'.

(* "when the partition covers all replicas the Deployment converges": with every existing pod available, a sync of a
   Deployment that is not yet on the new revision only changes the size of some ReplicaSet -- it is never stuck *)
Definition all_available (d : dstate) : bool :=
  (r_avail (d_new d) =? r_spec (d_new d)) && forallb (fun r => r_avail r =? r_spec r) (d_olds d).
Definition converged (d : dstate) : bool := (r_spec (d_new d) =? d_n d) && (sumspec (d_olds d) =? 0).
Definition same_sizes (d d' : dstate) : bool :=
  (r_spec (d_new d) =? r_spec (d_new d')) && list_eqb Z.eqb (map r_spec (d_olds d)) (map r_spec (d_olds d')).
Definition p_progress_at_full_partition (d d' : dstate) : bool :=
  if (d_n d <=? limit d) && all_available d && negb (converged d) && negb (d_no_ru d) then negb (same_sizes d d') else true.

Definition wf_state (d : dstate) : bool :=
  (0 <=? d_n d) && (0 <=? r_avail (d_new d)) && (r_avail (d_new d) <=? r_spec (d_new d)) &&
  forallb (fun r => (0 <=? r_avail r) && (r_avail r <=? r_spec r)) (d_olds d).
