(* The closed loop Rollout controller <-> BatchRelease controller: how the Rollout reconcile model (Model/RolloutSM.v) sees
   the object the BatchRelease reconcile model (Model/BRExec.v) works on.  This is fetchBatchRelease + the fields
   runBatchRelease / syncBatchRelease read; the brexec engine compares it with the harness's readBR on the real object
   after every real BatchRelease reconcile (Corr/BRExec.v: view_agrees). *)
From RV Require Import Base.Util Base.IntStr.
From RV Require Model.RolloutSM Model.BRExec.

Definition br_view (sp : BRExec.br_spec) (st : BRExec.br_status) (rid policy : string) (rollback_anno : bool) : RolloutSM.brel :=
  {| RolloutSM.br_batches := BRExec.sp_plan sp; RolloutSM.br_rid := rid; RolloutSM.br_partition := BRExec.sp_partition sp;
     RolloutSM.br_ft := BRExec.sp_ft sp; RolloutSM.br_rollback_anno := rollback_anno; RolloutSM.br_policy := policy;
     (* the recorded status speaks about the current spec: generation observed and plan hash current *)
     RolloutSM.br_consistent := (BRExec.bs_obs_gen st =? BRExec.sp_generation sp) && String.eqb (BRExec.bs_hash st) (BRExec.sp_hash sp);
     RolloutSM.br_state_ready := BRExec.bstate_eqb (BRExec.bs_state st) BRExec.SReady;
     RolloutSM.br_batch := BRExec.bs_batch st;
     RolloutSM.br_completed := BRExec.brphase_eqb (BRExec.bs_phase st) BRExec.PhCompleted;
     RolloutSM.br_deleting := BRExec.sp_deleting sp;
     RolloutSM.br_updated := BRExec.bs_updated st; RolloutSM.br_updated_ready := BRExec.bs_updated_ready st |}.
