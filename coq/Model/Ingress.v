(* Model of pkg/trafficrouting/network/ingress/ingress.go and of the four built-in ingress scripts
   (lua_configuration/trafficrouting_ingress/{nginx,aliyun-alb,higress,mse}.lua).
   The scripts are written in clear-then-set normal form:  script a s = apply (sets s a) (clear K a). *)
From RV Require Import Base.Util.

(* ---------- annotation maps: association lists read through [aget] ---------- *)
Definition amap := list (string * string).
Fixpoint aget (k : string) (m : amap) : option string :=
  match m with [] => None | (k', v) :: r => if String.eqb k k' then Some v else aget k r end.
Fixpoint adel (k : string) (m : amap) : amap :=
  match m with [] => [] | (k', v) :: r => if String.eqb k k' then adel k r else (k', v) :: adel k r end.
Definition aset (k v : string) (m : amap) : amap := (k, v) :: adel k m.
Definition clear (ks : list string) (m : amap) : amap := fold_left (fun m k => adel k m) ks m.
Definition apply_sets (sets : list (string * string)) (m : amap) : amap := fold_left (fun m kv => aset (fst kv) (snd kv) m) sets m.
Definition akeys (m : amap) : list string := map fst m.
Definition amap_eqb (a b : amap) : bool :=
  forallb (fun k => opt_eqb String.eqb (aget k a) (aget k b)) (akeys a ++ akeys b).

(* ---------- strategy as the scripts see it ---------- *)
Record hdr := { h_type : string; h_name : string; h_value : string }.
Record imatch := { im_headers : list hdr; im_query : list hdr }.
Record istrategy := { is_weight : option Z; is_matches : list imatch; is_modifier : option (list (string * string)) }.

Inductive iclass := Nginx | Alb | Higress | Mse.

Definition nginx_p (s : string) : string := ("nginx.ingress.kubernetes.io/" ++ s)%string.
Definition alb_p (s : string) : string := ("alb.ingress.kubernetes.io/" ++ s)%string.
Definition mse_p (s : string) : string := ("mse.ingress.kubernetes.io/" ++ s)%string.
Definition prefix_of (c : iclass) : string -> string := match c with Alb => alb_p | _ => nginx_p end.

Definition base_keys : list string := ["canary-by-cookie"; "canary-by-header"; "canary-by-header-pattern"; "canary-by-header-value"; "canary-weight"].
(* the keys each script assigns nil *)
Definition cleared (c : iclass) : list string :=
  match c with
  | Mse => map nginx_p ["canary-by-cookie"; "canary-by-header"; "canary-by-header-pattern"; "canary-by-header-value"] ++
           map mse_p ["canary-by-query"; "canary-by-query-pattern"; "canary-by-query-value"] ++
           (* since the fix of F8 the script also clears what it sets *)
           map nginx_p ["canary-by-query"; "canary-by-query-pattern"; "canary-by-query-value"] ++
           [mse_p "request-header-control-update"; nginx_p "canary-weight"]
  | _ => map (prefix_of c) base_keys
  end.

Definition header_sets (p : string -> string) (h : hdr) : list (string * string) :=
  if String.eqb (h_name h) "canary-by-cookie" then [(p "canary-by-cookie", h_value h)]
  else (p "canary-by-header", h_name h) ::
       (if String.eqb (h_type h) "RegularExpression" then [(p "canary-by-header-pattern", h_value h)]
        else [(p "canary-by-header-value", h_value h)]).
Definition query_sets (q : hdr) : list (string * string) :=
  (nginx_p "canary-by-query", h_name q) ::
  (if String.eqb (h_type q) "RegularExpression" then [(nginx_p "canary-by-query-pattern", h_value q)]
   else [(nginx_p "canary-by-query-value", h_value q)]).

(* assignments induced by one match; None = the script raises an error (indexing a nil header) *)
Definition match_sets (c : iclass) (m : imatch) : option (list (string * string)) :=
  match c with
  | Nginx => Some (match im_headers m with h :: _ => header_sets nginx_p h | [] => [] end)
  | Alb | Higress => match im_headers m with h :: _ => Some (header_sets (prefix_of c) h) | [] => None end
  | Mse => Some ((match im_headers m with h :: _ => header_sets nginx_p h | [] => [] end) ++
                 (match im_query m with q :: _ => query_sets q | [] => [] end))
  end.
Fixpoint all_match_sets (c : iclass) (ms : list imatch) : option (list (string * string)) :=
  match ms with
  | [] => Some []
  | m :: r => match match_sets c m, all_match_sets c r with Some a, Some b => Some (a ++ b) | _, _ => None end
  end.

Definition weight_str (s : istrategy) : string := match is_weight s with Some w => itoa w | None => "-1" end.

(* the list of assignments of a script run; [subset] = the annotation mse…/service-subset is present *)
Definition sets (c : iclass) (s : istrategy) (subset : bool) : option (list (string * string)) :=
  let p := prefix_of c in
  let w := if String.eqb (weight_str s) "-1" then [] else [(p "canary-weight", weight_str s)] in
  let head := (p "canary", "true") :: (match c with Alb => [(alb_p "order", "1")] | _ => [] end) in
  let mse_extra :=
      match c with
      | Mse => match is_modifier s with
               | Some [] => None                         (* requestHeaderModifier without set: ipairs(nil) raises *)
               | Some l => Some ((if subset then [(mse_p "service-subset", "gray")] else []) ++
                                 [(mse_p "request-header-control-update",
                                   fold_left (fun acc nv => (acc ++ fst nv ++ " " ++ snd nv)%string) l "")])
               | None => Some (if subset then [(mse_p "service-subset", "gray")] else [])
               end
      | _ => Some []
      end in
  match mse_extra, all_match_sets c (is_matches s) with
  | Some e, Some m => Some (head ++ w ++ e ++ m)
  | _, _ => None
  end.

Definition has_subset (a : amap) : bool := match aget (mse_p "service-subset") a with Some _ => true | None => false end.

(* one script run on an annotation map *)
Definition script (c : iclass) (a : amap) (s : istrategy) : option amap :=
  match sets c s (has_subset a) with
  | Some l => Some (apply_sets l (clear (cleared c) a))
  | None => None
  end.

(* ---------- the Ingress objects ---------- *)
Record ipath := { ip_path : string; ip_type : string; ip_svc : option string (* None: backend is not a Service *); ip_port : string }.
Record irule := { ir_host : string; ir_http : option (list ipath) }.
Record ingress := { in_annos : amap; in_rest : string (* labels, class, tls: opaque *); in_rules : list irule }.

(* buildCanaryIngress.  Since the fix of F25 a rule without http section and a path whose backend is
   not a Service are skipped (before it: nil pointer dereference). *)
Fixpoint canary_paths (stable canary : string) (ps : list ipath) : list ipath :=
  match ps with
  | [] => []
  | p :: r => match ip_svc p with
              | Some svc => if String.eqb svc stable
                            then {| ip_path := ip_path p; ip_type := ip_type p; ip_svc := Some canary; ip_port := ip_port p |} :: canary_paths stable canary r
                            else canary_paths stable canary r
              | None => canary_paths stable canary r
              end
  end.
Fixpoint canary_rules (stable canary : string) (rs : list irule) : list irule :=
  match rs with
  | [] => []
  | r :: rest => match ir_http r with
                 | None => canary_rules stable canary rest
                 | Some ps => match canary_paths stable canary ps with
                              | [] => canary_rules stable canary rest
                              | ps' => {| ir_host := ir_host r; ir_http := Some ps' |} :: canary_rules stable canary rest
                              end
                 end
  end.

Inductive iout := IPanic | IErr | IDone (done : bool) (canary : option ingress).

(* EnsureRoutes on (stable ingress, canary ingress if any) *)
Definition ensure (c : iclass) (stable_svc canary_svc : string) (st : ingress) (cn : option ingress) (s : istrategy) : iout :=
  match cn with
  | None =>
    if match is_weight s with Some 0 => true | _ => false end then IDone true None else
    match script c (in_annos st) {| is_weight := Some 0; is_matches := []; is_modifier := None |} with
    | None => IErr
    | Some a => IDone false (Some {| in_annos := a; in_rest := in_rest st; in_rules := canary_rules stable_svc canary_svc (in_rules st) |})
    end
  | Some ci =>
    match script c (in_annos ci) s with
    | None => IErr
    | Some a => if amap_eqb (in_annos ci) a then IDone true cn
                else IDone false (Some {| in_annos := a; in_rest := in_rest ci; in_rules := in_rules ci |})
    end
  end.
