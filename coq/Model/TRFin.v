(* The Rollout controller's side of a TrafficRouting object it uses (annotation rollouts.kruise.io/trafficrouting):
   pkg/controller/rollout/rollout_progressing.go: handleTrafficRouting (put "progressing.rollouts.kruise.io/<rollout>" on it
   before routing) and finalizeTrafficRouting (take it off when the Rollout is done).  That finalizer is what keeps the
   TrafficRouting object alive while a Rollout needs it -- and what blocks its deletion for ever if it is not removed. *)
From RV Require Import Base.Util Base.IntStr.

Inductive trphase := TFinalizing | TTerminating | TOtherPhase.
Record trobj2 := { t2_exists : bool; t2_deleting : bool; t2_phase : trphase;
                   t2_mine : bool;      (* carries this Rollout's progressing finalizer *)
                   t2_others : bool     (* carries other finalizers (the controller's own, other Rollouts') *) }.
Inductive t2res := T2Ready | T2Wait | T2Err.

Definition with_mine (t : trobj2) (b : bool) : trobj2 :=
  {| t2_exists := t2_exists t; t2_deleting := t2_deleting t; t2_phase := t2_phase t; t2_mine := b; t2_others := t2_others t |}.
(* an object whose last finalizer is removed while it is deleting disappears *)
Definition settle (t : trobj2) : trobj2 :=
  if t2_deleting t && negb (t2_mine t) && negb (t2_others t)
  then {| t2_exists := false; t2_deleting := false; t2_phase := t2_phase t; t2_mine := false; t2_others := false |} else t.

(* fail_update: the Update of the finalizer list fails *)
Definition handle_tr (fail_update : bool) (t : trobj2) : t2res * trobj2 :=
  if negb (t2_exists t) then (T2Wait, t) else
  if t2_mine t then (T2Ready, t) else
  match t2_phase t with
  | TFinalizing | TTerminating => (T2Wait, t)
  | TOtherPhase => if fail_update then (T2Err, t) else (T2Wait, with_mine t true)
  end.
Definition finalize_tr (fail_update : bool) (t : trobj2) : bool (* error *) * trobj2 :=
  if negb (t2_exists t) then (false, t) else
  if t2_mine t then (if fail_update then (true, t) else (false, settle (with_mine t false))) else (false, t).
