(* Model of pkg/trafficrouting/network/gateway/gateway.go: buildDesiredHTTPRoute and the
   EnsureRoutes / Finalise wrappers, over HTTPRoute rules projected to the fields the code reads
   (everything else is carried as opaque strings). *)
From RV Require Import Base.Util.

Record kv := { k_type : string; k_name : string; k_val : string }.       (* header / query-param match *)
Record hmatch := { m_path : option (string * string);                     (* type, value *)
                   m_headers : list kv; m_query : list kv; m_method : string (* "" = absent; user matches never set it *) }.
Record bref := { b_kind : option string; b_name : string; b_weight : option Z;
                 b_rest : string }.                                        (* group, namespace, port, filters: opaque *)
Record rule := { r_matches : list hmatch; r_rest : string (* filters, timeouts: opaque *); r_refs : list bref }.

Definition kv_eqb (a b : kv) := String.eqb (k_type a) (k_type b) && String.eqb (k_name a) (k_name b) && String.eqb (k_val a) (k_val b).
Definition path_eqb (a b : option (string * string)) :=
  opt_eqb (fun x y => String.eqb (fst x) (fst y) && String.eqb (snd x) (snd y)) a b.
Definition hmatch_eqb (a b : hmatch) :=
  path_eqb (m_path a) (m_path b) && list_eqb kv_eqb (m_headers a) (m_headers b) &&
  list_eqb kv_eqb (m_query a) (m_query b) && String.eqb (m_method a) (m_method b).
Definition bref_eqb (a b : bref) :=
  opt_eqb String.eqb (b_kind a) (b_kind b) && String.eqb (b_name a) (b_name b) &&
  opt_eqb Z.eqb (b_weight a) (b_weight b) && String.eqb (b_rest a) (b_rest b).
Definition rule_eqb (a b : rule) :=
  list_eqb hmatch_eqb (r_matches a) (r_matches b) && String.eqb (r_rest a) (r_rest b) && list_eqb bref_eqb (r_refs a) (r_refs b).

Record gconf := { g_stable : string; g_canary : string }.

Definition is_svc (name : string) (b : bref) : bool :=
  match b_kind b with Some k => String.eqb k "Service" && String.eqb (b_name b) name | None => false end.

(* getServiceBackendRef: index and value of the first Service ref with that name *)
Fixpoint find_ref (name : string) (refs : list bref) (i : nat) : option (nat * bref) :=
  match refs with
  | [] => None
  | b :: rest => if is_svc name b then Some (i, b) else find_ref name rest (S i)
  end.
Definition get_ref (name : string) (r : rule) : option (nat * bref) := find_ref name (r_refs r) O.

Definition with_refs (r : rule) (refs : list bref) : rule := {| r_matches := r_matches r; r_rest := r_rest r; r_refs := refs |}.
Definition with_matches (r : rule) (ms : list hmatch) : rule := {| r_matches := ms; r_rest := r_rest r; r_refs := r_refs r |}.
Definition set_weight (b : bref) (w : Z) : bref := {| b_kind := b_kind b; b_name := b_name b; b_weight := Some w; b_rest := b_rest b |}.
Definition set_name (b : bref) (n : string) : bref := {| b_kind := b_kind b; b_name := n; b_weight := b_weight b; b_rest := b_rest b |}.

Fixpoint replace_at {A} (l : list A) (i : nat) (x : A) : list A :=
  match l, i with
  | [], _ => []
  | _ :: t, O => x :: t
  | h :: t, S j => h :: replace_at t j x
  end.
Fixpoint remove_at {A} (l : list A) (i : nat) : list A :=
  match l, i with
  | [], _ => []
  | _ :: t, O => t
  | h :: t, S j => h :: remove_at t j
  end.

(* setServiceBackendRef *)
Definition set_ref (r : rule) (b : bref) : rule :=
  match b_kind b with
  | Some k => if String.eqb k "Service" then
                match get_ref (b_name b) r with
                | None => with_refs r (r_refs r ++ [b])
                | Some (i, _) => with_refs r (replace_at (r_refs r) i b)
                end
              else r
  | None => r
  end.
(* filterOutServiceBackendRef *)
Definition filter_out (r : rule) (name : string) : rule :=
  match get_ref name r with None => r | Some (i, _) => with_refs r (remove_at (r_refs r) i) end.

(* weight == -1.  Since the fix of F4 only rules that referenced the canary Service and nothing else
   (the generated ones) are dropped; user rules without backendRefs are kept. *)
Definition finalise_rule (c : gconf) (r : rule) : list rule :=
  let had_canary := match get_ref (g_canary c) r with Some _ => true | None => false end in
  let r1 := filter_out r (g_canary c) in
  let r2 := match get_ref (g_stable c) r1 with Some (_, s) => set_ref r1 (set_weight s 1) | None => r1 end in
  match r_refs r2 with [] => if had_canary then [] else [r2] | _ => [r2] end.
Definition finalise_rules (c : gconf) (rules : list rule) : list rule := flat_map (finalise_rule c) rules.

Definition weight_rule (c : gconf) (w : Z) (r : rule) : rule :=
  match get_ref (g_stable c) r with
  | None => r
  | Some (_, s) =>
    let cn := match get_ref (g_canary c) r with Some (_, x) => x | None => set_name s (g_canary c) end in
    set_ref (set_ref r (set_weight s (100 - w))) (set_weight cn w)
  end.
Definition weight_rules (c : gconf) (w : Z) (rules : list rule) : list rule := map (weight_rule c w) rules.

Definition has_path (m : hmatch) : bool := match m_path m with Some _ => true | None => false end.
Definition add_user (base u : hmatch) : hmatch :=
  {| m_path := m_path base; m_headers := m_headers base ++ m_headers u; m_query := m_query base ++ m_query u; m_method := m_method base |}.
Definition path_only (u : hmatch) : hmatch :=
  {| m_path := m_path u; m_headers := m_headers u; m_query := m_query u; m_method := "" |}.

(* buildCanaryHeaderHttpRoutes (after the fixes of F3 and F22): the k-th non-path match is combined
   with every match of the original rule; a rule left with a canary reference by an earlier step is
   restored (stable rule) or dropped (generated canary rule). *)
Definition restore_for_match (c : gconf) (r : rule) : option rule :=
  match get_ref (g_canary c) r with
  | None => Some r
  | Some _ => let r1 := filter_out r (g_canary c) in
              match get_ref (g_stable c) r1 with
              | None => None
              | Some (_, s) => Some (set_ref r1 (set_weight s 1))
              end
  end.

Fixpoint header_rules_go (c : gconf) (np : list hmatch) (rules : list rule) (pm : list hmatch)
  : list rule * list rule (* desired (originals), canaries *) :=
  match rules with
  | [] => ([], [])
  | r0 :: rest =>
    match restore_for_match c r0 with
    | None => header_rules_go c np rest pm
    | Some r =>
      match get_ref (g_stable c) r with
      | None => let '(d, cs) := header_rules_go c np rest pm in (r :: d, cs)
      | Some (_, s) =>
        let cref := set_name s (g_canary c) in
        let path_ms := map path_only pm in
        let '(d, cs) := header_rules_go c np rest [] in             (* pathMatches = nil after the first stable rule *)
        if (Nat.eqb (List.length np) 0) && (Nat.eqb (List.length path_ms) 0) then (r :: d, cs) else
        let combined := flat_map (fun base => map (add_user base) np) (r_matches r) in
        (r :: d, {| r_matches := path_ms ++ combined; r_rest := r_rest r; r_refs := [cref] |} :: cs)
      end
    end
  end.
Definition header_rules (c : gconf) (ms : list hmatch) (rules : list rule) : list rule :=
  let np := filter (fun m => negb (has_path m)) ms in
  let '(d, cs) := header_rules_go c np rules (filter has_path ms) in d ++ cs.

(* buildDesiredHTTPRoute; None = nil pointer dereference (weight nil, no matches, a rule with the stable ref) *)
Definition build_desired (c : gconf) (rules : list rule) (weight : option Z) (ms : list hmatch) : option (list rule) :=
  match weight with
  | Some (-1) => Some (finalise_rules c rules)
  | _ => match ms with
         | _ :: _ => Some (header_rules c ms rules)
         | [] => match weight with
                 | Some w => Some (weight_rules c w rules)
                 | None => if existsb (fun r => match get_ref (g_stable c) r with Some _ => true | None => false end) rules
                           then None else Some rules
                 end
         end
  end.

(* a traffic strategy as EnsureRoutes reads it *)
Record gstrategy := { s_weight : option Z; s_matches : list hmatch }.

(* EnsureRoutes: (done, rules after) *)
Definition ensure (c : gconf) (rules : list rule) (s : gstrategy) : option (bool * list rule) :=
  match build_desired c rules (s_weight s) (s_matches s) with
  | None => None
  | Some d => if list_eqb rule_eqb rules d then Some (true, rules) else Some (false, d)
  end.
(* Finalise: (modified, rules after) *)
Definition finalise (c : gconf) (rules : list rule) : bool * list rule :=
  let d := finalise_rules c rules in
  if list_eqb rule_eqb rules d then (false, rules) else (true, d).
