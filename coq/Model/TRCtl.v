(* Model of the TrafficRouting controller (pkg/controller/trafficrouting/trafficrouting_controller.go: Reconcile,
   handleFinalizer) on top of the traffic manager model in OnlyTrafficRouting mode. *)
From RV Require Import Base.Util Model.TrafficMgr.

Inductive tphase := TpEmpty | TpInitial | TpHealthy | TpProgressing | TpFinalizing | TpTerminating | TpUnknown.
Definition tphase_eqb (a b : tphase) : bool :=
  match a, b with TpEmpty, TpEmpty | TpInitial, TpInitial | TpHealthy, TpHealthy | TpProgressing, TpProgressing
  | TpFinalizing, TpFinalizing | TpTerminating, TpTerminating | TpUnknown, TpUnknown => true | _, _ => false end.

Record trobj := {
  to_phase : tphase; to_deleting : bool;
  to_own_finalizer : bool;              (* rollouts.kruise.io/trafficrouting *)
  to_progressing : bool;                (* some progressing.rollouts.kruise.io/<rollout> finalizer is present *)
  to_strategy : strategy; to_zero_grace : bool;
  to_gateway_fails : bool               (* fault injection: the provider's API read fails in this reconcile *)
}.
Record trout := {
  ro_phase : tphase;                    (* persisted phase after the reconcile *)
  ro_own_finalizer : bool;
  ro_writes : list write; ro_graces : graces; ro_err : bool; ro_requeue : bool
}.

Definition tr_ctx (o : trobj) : tctx :=
  {| tc_refs := true; tc_zero_grace := to_zero_grace o; tc_strategy := to_strategy o; tc_stable_rev := ""; tc_canary_rev := "";
     tc_last_update := None; tc_key := false; tc_gateway_fails := to_gateway_fails o; tc_only_traffic := true |}.

Definition tr_reconcile (o : trobj) (n : net) (g : graces) : trout :=
  (* handleFinalizer at the top registers the finalizer of a live object; it is removed only by the Terminating case *)
  let fin0 := if to_deleting o then to_own_finalizer o else true in
  let phase0 := if to_deleting o then TpTerminating else match to_phase o with TpEmpty => TpInitial | p => p end in
  let keep err rq ws g' := {| ro_phase := to_phase o; ro_own_finalizer := fin0; ro_writes := ws; ro_graces := g'; ro_err := err; ro_requeue := rq |} in
  let settle p fin ws g' := {| ro_phase := p; ro_own_finalizer := fin; ro_writes := ws; ro_graces := g'; ro_err := false; ro_requeue := false |} in
  match phase0 with
  | TpInitial => if n_stable_exists n && negb (to_gateway_fails o) then settle TpHealthy fin0 [] g else keep true false [] g   (* InitializeTrafficRouting reads the Service and the gateway object *)
  | TpHealthy => settle (if to_progressing o then TpProgressing else TpHealthy) fin0 [] g
  | TpProgressing =>
    if negb (to_progressing o) then settle TpFinalizing fin0 [] g else
    let r := do_traffic_routing (tr_ctx o) n g in
    if tr_err r then keep true false (tr_writes r) (tr_graces r)
    else if tr_ok r then settle TpProgressing fin0 (tr_writes r) (tr_graces r) else keep false true (tr_writes r) (tr_graces r)
  | TpFinalizing =>
    let r := finalising_traffic_routing (tr_ctx o) n g in
    if tr_err r then keep true false (tr_writes r) (tr_graces r)
    else if tr_ok r then settle TpHealthy fin0 (tr_writes r) (tr_graces r) else keep false true (tr_writes r) (tr_graces r)
  | TpTerminating =>
    let r := finalising_traffic_routing (tr_ctx o) n g in
    if tr_err r then keep true false (tr_writes r) (tr_graces r)
    else if tr_ok r then settle TpTerminating (if to_deleting o then false else fin0) (tr_writes r) (tr_graces r)   (* a live object that carries phase Terminating keeps its finalizer *)
    else keep false true (tr_writes r) (tr_graces r)
  | _ => settle phase0 fin0 [] g
  end.
