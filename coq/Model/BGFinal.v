(* Model of Finalize of the blue-green Deployment control plane
   (pkg/controller/batchrelease/control/bluegreenstyle/control_plane.go: Finalize;
    .../bluegreenstyle/deployment/control.go: Finalize, restored, waitAllUpdatedAndReady; pkg/util: DeploymentMaxUnavailable),
   one call = one attempt of a BatchRelease reconcile in phase Finalizing.  HPA restoration is outside the model. *)
From RV Require Import Base.Util Base.IntStr.

Record dstatus := { ds_replicas : Z; ds_updated : Z; ds_ready : Z; ds_available : Z }.
(* the Deployment as the attempt finds it *)
Record bgdep := {
  bd_n : Z;                  (* spec.replicas *)
  bd_restored : bool;        (* the original-strategy annotation is gone (an earlier attempt restored the user's strategy) *)
  bd_paused : bool;
  bd_max_surge : Z; bd_max_unavail : Z;   (* the user's rolling-update setting: in the annotation, or back in the spec *)
  bd_released : bool;        (* the control-info annotation is gone *)
  bd_status : dstatus
}.

Inductive fin_result := FinDone | FinRetry | FinError.

(* util.DeploymentMaxUnavailable on the restored strategy *)
Definition allowed_unavailable (d : bgdep) : Z :=
  if bd_n d =? 0 then 0 else
  let mu := if (bd_max_surge d =? 0) && (bd_max_unavail d =? 0) then 1 else bd_max_unavail d in
  if bd_n d <? mu then bd_n d else mu.

(* waitAllUpdatedAndReady *)
Definition all_updated_and_ready (d : bgdep) : bool :=
  negb (bd_paused d) && (ds_ready (bd_status d) =? ds_updated (bd_status d)) &&
  (ds_replicas (bd_status d) <=? allowed_unavailable d + ds_available (bd_status d)).

(* the patch of the first attempt: un-pause, put the user's strategy back, drop both annotations *)
Definition restore (d : bgdep) : bgdep :=
  {| bd_n := bd_n d; bd_restored := true; bd_paused := false; bd_max_surge := bd_max_surge d; bd_max_unavail := bd_max_unavail d;
     bd_released := true; bd_status := bd_status d |}.

Definition finalize (partitioned : bool) (d : bgdep) : fin_result * bgdep :=
  if partitioned then (FinDone, d) else       (* "continuous release is not supported yet": nothing is done *)
  if bd_restored d then
    (* F6: when an earlier attempt already restored the strategy, nothing is patched and waitAllUpdatedAndReady is handed the
       EMPTY object of GetEmptyObjectWithKey, whose zero status always passes: the attempt reports done whatever the pods do *)
    (FinDone, d)
  else
  let d' := restore d in
  (if all_updated_and_ready d' then FinDone else FinRetry, d').

(* a history of attempts: the workload controller moves the status between them *)
Definition with_status (d : bgdep) (s : dstatus) : bgdep :=
  {| bd_n := bd_n d; bd_restored := bd_restored d; bd_paused := bd_paused d; bd_max_surge := bd_max_surge d; bd_max_unavail := bd_max_unavail d;
     bd_released := bd_released d; bd_status := s |}.
Fixpoint attempts (partitioned : bool) (d : bgdep) (sts : list dstatus) : list (fin_result * bgdep) :=
  match sts with
  | [] => []
  | s :: rest => let r := finalize partitioned (with_status d s) in r :: attempts partitioned (snd r) rest
  end.
