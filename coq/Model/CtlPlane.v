(* Models of Initialize / Finalize of two BatchRelease workload control planes, with one injected API failure:
   - partition-style Deployment (pkg/controller/batchrelease/control/partitionstyle/control_plane.go + .../deployment/control.go)
   - canary-style Deployment    (.../canarystyle/control_plane.go + .../canarystyle/deployment/{stable,canary}.go)
   One call = what one BatchRelease reconcile does in phase Preparing / Finalizing.  The API calls are listed in program
   order; [fault] says which call of which verb fails (the n-th Get / Patch / List / Update / Create of a Deployment). *)
From RV Require Import Base.Util Base.IntStr.

Inductive verb := VGet | VPatch | VList | VUpdate | VCreate.
Definition verb_eqb (a b : verb) : bool :=
  match a, b with VGet, VGet | VPatch, VPatch | VList, VList | VUpdate, VUpdate | VCreate, VCreate => true | _, _ => false end.
(* the fault still to come: the n-th (1-based) call of the verb fails *)
Definition fault := option (verb * nat).
(* one API call: does it fail, and the fault that remains *)
Definition api (f : fault) (v : verb) : bool * fault :=
  match f with
  | Some (v', n) => if verb_eqb v v' then match n with 1%nat => (true, None) | S m => (false, Some (v', m)) | O => (false, f) end else (false, f)
  | None => (false, None)
  end.

Inductive outcome := Done | Failed.

(* ---------- partition-style Deployment ---------- *)
Record pdep := { pd_claimed : bool;      (* batchrelease control-info annotation *)
                 pd_paused : bool; pd_recreate : bool (* spec.strategy.type = Recreate *);
                 pd_strategy_anno : bool; pd_label : bool (* controlled-by-advanced-deployment-controller *) }.

Definition pdep_under_control (d : pdep) : bool := pd_claimed d && pd_recreate d && pd_paused d.

Definition pdep_initialize (f : fault) (d : pdep) : outcome * pdep :=
  let '(fail1, f1) := api f VGet in if fail1 then (Failed, d) else
  if pdep_under_control d then (Done, d) else
  let '(fail2, _) := api f1 VPatch in if fail2 then (Failed, d) else
  (Done, {| pd_claimed := true; pd_paused := true; pd_recreate := true; pd_strategy_anno := true; pd_label := true |}).

Definition pdep_finalize (partitioned : bool) (f : fault) (d : pdep) : outcome * pdep :=
  let '(fail1, f1) := api f VGet in if fail1 then (Failed, d) else
  if negb (pd_claimed d && pd_paused d) then (Done, d) else          (* "no need to finalize again" *)
  let '(fail2, _) := api f1 VPatch in if fail2 then (Failed, d) else
  (Done, if partitioned then {| pd_claimed := false; pd_paused := pd_paused d; pd_recreate := pd_recreate d;
                                pd_strategy_anno := pd_strategy_anno d; pd_label := pd_label d |}
         else {| pd_claimed := false; pd_paused := false; pd_recreate := false; pd_strategy_anno := false; pd_label := false |}).

(* handed back to its native controller *)
Definition pdep_released (d : pdep) : bool :=
  negb (pd_claimed d) && negb (pd_paused d) && negb (pd_recreate d) && negb (pd_strategy_anno d) && negb (pd_label d).

(* ---------- canary-style Deployment ---------- *)
Record cstatus := { cs_replicas : Z; cs_updated : Z; cs_available : Z; cs_max_unavail : Z }.
Record cdep := { cd_claimed : bool; cd_paused : bool;
                 cd_canaries : list bool;        (* the canary Deployments this release owns: does each still carry the finalizer *)
                 cd_status : cstatus }.

(* Initialize: claim the stable Deployment, create the canary Deployment unless one exists.  A fresh creation always ends
   in an error ("created ..., but waiting informer synced") so that the next reconcile re-reads *)
Definition cdep_initialize (f : fault) (d : cdep) : outcome * cdep :=
  let '(fail1, f1) := api f VGet in if fail1 then (Failed, d) else
  let '(r2, f2) := if cd_claimed d then ((false, f1) : bool * fault) else api f1 VPatch in
  if r2 then (Failed, d) else
  let d1 := {| cd_claimed := true; cd_paused := cd_paused d; cd_canaries := cd_canaries d; cd_status := cd_status d |} in
  let '(fail3, f3) := api f2 VList in if fail3 then (Failed, d1) else
  match cd_canaries d with
  | _ :: _ => (Done, d1)
  | [] =>
    let '(fail4, f4) := api f3 VGet in if fail4 then (Failed, d1) else
    let '(fail5, _) := api f4 VCreate in if fail5 then (Failed, d1) else
    (Failed, {| cd_claimed := true; cd_paused := cd_paused d; cd_canaries := [true]; cd_status := cd_status d |})
  end.

(* stable.waitAllUpdatedAndReady on the patched object *)
Definition cdep_promoted (paused : bool) (s : cstatus) : bool :=
  negb paused && (cs_replicas s =? cs_updated s) && (cs_replicas s <=? cs_max_unavail s + cs_available s).

(* Delete: drop the finalizer of every owned canary Deployment (Get + Update each), stop at the first failure *)
Fixpoint drop_finalizers (f : fault) (l : list bool) : outcome * list bool * fault :=
  match l with
  | [] => (Done, [], f)
  | false :: rest => let '(o, rest', f') := drop_finalizers f rest in (o, false :: rest', f')
  | true :: rest =>
    let '(failg, f1) := api f VGet in if failg then (Failed, l, f1) else
    let '(failu, f2) := api f1 VUpdate in if failu then (Failed, l, f2) else
    let '(o, rest', f') := drop_finalizers f2 rest in (o, false :: rest', f')
  end.

Definition cdep_finalize (partitioned wait_resume : bool) (f : fault) (d : cdep) : outcome * cdep :=
  let '(fail1, f1) := api f VGet in if fail1 then (Failed, d) else
  let '(fail2, f2) := api f1 VPatch in if fail2 then (Failed, d) else
  let d1 := {| cd_claimed := false; cd_paused := partitioned; cd_canaries := cd_canaries d; cd_status := cd_status d |} in
  if wait_resume && negb (cdep_promoted partitioned (cd_status d)) then (Failed, d1) else
  let '(fail3, f3) := api f2 VList in if fail3 then (Failed, d1) else
  let '(fail4, f4) := api f3 VList in if fail4 then (Failed, d1) else
  let '(o, l', _) := drop_finalizers f4 (cd_canaries d) in
  (o, {| cd_claimed := false; cd_paused := partitioned; cd_canaries := l'; cd_status := cd_status d |}).

(* Finalize when the stable Deployment no longer exists: nothing to hand back, but the canary Deployments this release owns
   still lose their finalizer (Get: not found; List; Get of the template: not found; then Delete) *)
Definition cdep_finalize_gone (f : fault) (d : cdep) : outcome * cdep :=
  let gone l := {| cd_claimed := false; cd_paused := false; cd_canaries := l; cd_status := cd_status d |} in
  let '(fail1, f1) := api f VGet in if fail1 then (Failed, gone (cd_canaries d)) else
  let '(fail2, f2) := api f1 VList in if fail2 then (Failed, gone (cd_canaries d)) else
  let '(fail3, f3) := api f2 VGet in if fail3 then (Failed, gone (cd_canaries d)) else
  let '(fail4, f4) := api f3 VList in if fail4 then (Failed, gone (cd_canaries d)) else
  let '(o, l', _) := drop_finalizers f4 (cd_canaries d) in (o, gone l').

Definition cdep_released (d : cdep) : bool := negb (cd_claimed d) && forallb negb (cd_canaries d).
