(* One Rollout reconcile for the BLUE-GREEN strategy over a CloneSet, without traffic routing
   (rollout_bluegreen.go: runCanary / doCanaryUpgrade / doCanaryPaused / doCanaryJump / doCanaryFinalising /
   nextBlueGreenTask, and the strategy-independent parts of rollout_progressing.go shared with Model/RolloutSM.v).
   The types of Model/RolloutSM.v are reused; the cursor value FtOther stands for FinalisingStepRouteTrafficToNew
   (the blue-green engine never generates unknown cursor strings). *)
From RV Require Import Base.Util Base.IntStr Model.RolloutSM.

Definition bg_tasks (r : freason) : list ftask :=
  match r with
  | FrSuccess => [FtOther; FtRestoreStable; FtResume; FtRouteStable; FtRemoveCanarySvc; FtRelease]
  | FrRollback => [FtRouteStable; FtResume; FtRestoreStable; FtRemoveCanarySvc; FtRelease]
  | _ => [FtRestoreStable; FtRouteStable; FtRemoveCanarySvc; FtResume; FtRelease]
  end.
Definition bg_next_task (r : freason) (cur : ftask) : ftask :=
  match cur with FtNone => hd FtEnd (bg_tasks r) | _ => next_in cur (bg_tasks r) end.

(* doCanaryFinalising (blue-green); every traffic task is immediate when no traffic routing is configured *)
Definition finalise_bg (sp : ro_spec) (u : sub) (w : wl) (br : option brel) (r : freason) (wait_ready : bool) : bool * sub * brw :=
  if ftask_eqb (su_fin u) FtEnd then (true, u, br) else
  let nxt := bg_next_task r (su_fin u) in
  let u1 := match su_fin u with FtNone => upd_sub u (su_idx u) (su_next u) (su_state u) nxt false | _ => u end in
  let run (retry : bool) (wr : brw) :=
      if retry then (false, u1, wr)
      else let u2 := upd_sub u1 (su_idx u1) (su_next u1) (su_state u1) nxt false in (ftask_eqb nxt FtEnd, u2, wr) in
  match su_fin u1 with
  | FtResume =>
    match br with
    | None => run false br
    | Some b =>
      if match br_partition b with None => br_completed b | Some _ => false end then run false br
      else if match br_partition b with None => Bool.eqb (String.eqb (br_policy b) "WaitResume") wait_ready | Some _ => false end then run true br
      else run true (Some {| br_batches := br_batches b; br_rid := br_rid b; br_partition := None; br_ft := br_ft b; br_rollback_anno := br_rollback_anno b;
                             br_policy := if wait_ready then "WaitResume" else "Immediate"; br_consistent := br_consistent b;
                             br_state_ready := br_state_ready b; br_batch := br_batch b; br_completed := br_completed b; br_deleting := br_deleting b;
                             br_updated := br_updated b; br_updated_ready := br_updated_ready b |})
    end
  | FtRelease => match br with None => run false br | Some b => if br_deleting b then run true br else run true (Some (mark_deleting b)) end
  | FtRouteStable | FtRestoreStable | FtRemoveCanarySvc | FtOther => run false br
  | _ => (false, upd_sub u1 (su_idx u1) (su_next u1) (su_state u1) (bg_next_task r FtNone) (su_elapsed u1), br)
  end.

(* doCanaryUpgrade: as for canary, but the next state is always traffic routing *)
Definition bg_upgrade (sp : ro_spec) (u : sub) (w : wl) (br : option brel) : canary_out :=
  let want := desired_br sp (rollout_id w) (su_idx u - 1) (wl_in_rollback w) br in
  match br with
  | None => COut u (Some want) false
  | Some b =>
    if negb (br_spec_eqb b want) then COut u (Some want) false
    else if negb (br_consistent b) then COut u br false
    else if negb (br_state_ready b) || (br_batch b + 1 <? su_idx u) then COut u br false
    else COut (upd_sub (upd_sub_meta u (su_hash u) (wl_pth w) (su_canary_rev u)) (su_idx u) (su_next u) StTraffic (su_fin u) false) br false
  end.

Definition bg_step (sp : ro_spec) (u : sub) (w : wl) (br : option brel) (cur : step) : canary_out :=
  match su_state u with
  | StInit => bg_upgrade sp (upd_sub u (su_idx u) (su_next u) StUpgrade (su_fin u) false) w br      (* falls through into the upgrade *)
  | StUpgrade => bg_upgrade sp u w br
  | StTraffic => COut (upd_sub u (su_idx u) (su_next u) StMetrics (su_fin u) false) br true
  | StMetrics => COut (upd_sub u (su_idx u) (su_next u) StPaused (su_fin u) (su_elapsed u)) br false
  | StPaused =>
    match sp_pause cur with
    | None => COut u br false
    | Some d => if su_elapsed u || (d <=? 0) then COut (upd_sub u (su_idx u) (su_next u) StReady (su_fin u) false) br false else COut u br true
    end
  | StReady =>
    if su_idx u <? nsteps sp then COut (upd_sub u (su_idx u + 1) (next_index (nsteps sp) (su_idx u + 1)) StInit (su_fin u) false) br false
    else COut (upd_sub u (su_idx u) (su_next u) StCompleted (su_fin u) false) br false
  | StCompleted | StOther => COut u br false
  end.

Definition run_bg (sp : ro_spec) (u0 : sub) (w : wl) (br0 : option brel) : canary_out :=
  let '(u1, br) := sync_br u0 br0 in
  let u := fill_pth u1 w in
  match do_jump sp u with
  | None => CPanic
  | Some (Some u') => COut u' br false
  | Some None => match get_step sp (su_idx u) with None => CPanic | Some cur => bg_step sp u w br cur end
  end.

Definition in_rolling_bg (sp : ro_spec) (old : ro_status) (s : ro_status) (w : wl) (br : option brel) : prog_res :=
  match rp_sub old, rp_sub s with
  | Some ou, Some u =>
    let rev_differs := negb (String.eqb (wl_canary w) (su_canary_rev ou)) in
    let direct := wl_in_rollback w && rev_differs && negb (rs_rollback_in_batch sp) in
    let batch := wl_in_rollback w && rev_differs && rs_rollback_in_batch sp in
    let continuous := negb (sempty (su_canary_rev ou)) && rev_differs && negb (wl_in_rollback w) in
    let plan_changed := negb (sempty (su_hash ou)) && negb (String.eqb (su_hash ou) (rs_hash sp)) in
    if direct || rs_paused sp || batch then in_rolling sp old s w br
    else if continuous then
      (* a new revision during a blue-green release is refused: nothing changes until the user rolls back *)
      POk {| po_status := s; po_br := br; po_anno := false; po_requeue := false |}
    else if plan_changed || sstate_eqb (su_state u) StCompleted then in_rolling sp old s w br
    else
      let nx := if (su_next ou <=? 0) || (nsteps sp <? su_next ou) then next_index (nsteps sp) (su_idx ou) else su_next ou in
      let u := upd_sub u (su_idx u) nx (su_state u) (su_fin u) (su_elapsed u) in
      match run_bg sp u w br with
      | CPanic => PPanic
      | COut u' br' rq => POk {| po_status := set_sub s (Some u'); po_br := br'; po_anno := false; po_requeue := rq |}
      end
  | _, _ => PPanic
  end.

Definition do_finalising_bg (sp : ro_spec) (s : ro_status) (w : wl) (br : option brel) (r : freason) (wait_ready : bool)
  : bool * ro_status * brw * bool :=
  match rp_sub s with
  | None => (true, s, br, false)
  | Some u => let '(done, u', br') := finalise_bg sp u w br r wait_ready in
              (done, set_sub s (Some u'), br', wl_exists w && wl_consistent w && wl_in_progress w)
  end.

Definition progressing_bg (sp : ro_spec) (old : ro_status) (s : ro_status) (w : wl) (br : option brel) : prog_res :=
  match rp_prog old with
  | None => PPanic
  | Some (reason, _, _) =>
    if negb (wl_exists w) || negb (wl_consistent w) then POk {| po_status := s; po_br := br; po_anno := false; po_requeue := false |} else
    match reason with
    | PrInRolling => in_rolling_bg sp old s w br
    | PrFinalising =>
      let '(done, s1, br', anno) := do_finalising_bg sp s w br FrSuccess true in
      if done then POk {| po_status := set_succ (set_prog s1 PrCompleted false) (Some true); po_br := br'; po_anno := anno; po_requeue := false |}
      else POk {| po_status := s1; po_br := br'; po_anno := anno; po_requeue := true |}
    | PrCancelling =>
      let '(done, s1, br', anno) := do_finalising_bg sp s w br FrRollback false in
      if done then POk {| po_status := set_succ (set_prog s1 PrCompleted false) (Some false); po_br := br'; po_anno := anno; po_requeue := false |}
      else POk {| po_status := s1; po_br := br'; po_anno := anno; po_requeue := true |}
    | _ => progressing sp old s w br
    end
  end.

Definition reconcile_bg (sp : ro_spec) (st : ro_status) (w : wl) (br : option brel) : ro_res :=
  let fin := if rs_deleting sp then (if match rp_term st with Some true => true | _ => false end then false else rs_finalizer sp) else true in
  match calc_status sp st w with
  | CalcRetry => reconcile sp st w br
  | CalcStatus s =>
    match rp_phase st with
    | RpProgressing =>
      match progressing_bg sp st s w br with
      | PPanic => RPanic
      | PBadRequest => ROut {| o_status := None; o_br := br; o_remove_progress_anno := false; o_finalizer := fin; o_requeue := false; o_err := false |}
      | POk o => ROut {| o_status := Some (po_status o); o_br := po_br o; o_remove_progress_anno := po_anno o; o_finalizer := fin;
                         o_requeue := po_requeue o; o_err := false |}
      end
    | RpTerminating =>
      match rp_term st with
      | Some false =>
        if wl_exists w && negb (wl_consistent w)
        then ROut {| o_status := Some s; o_br := br; o_remove_progress_anno := false; o_finalizer := fin; o_requeue := true; o_err := false |} else
        let '(done, s1, br', anno) := do_finalising_bg sp s w br FrDelete false in
        ROut {| o_status := Some (if done then set_term s1 (Some true) else s1); o_br := br'; o_remove_progress_anno := anno; o_finalizer := fin;
                o_requeue := negb done; o_err := false |}
      | _ => reconcile sp st w br
      end
    | RpDisabling =>
      if wl_exists w && negb (wl_consistent w)
      then ROut {| o_status := Some s; o_br := br; o_remove_progress_anno := false; o_finalizer := fin; o_requeue := true; o_err := false |} else
      let '(done, s1, br', anno) := do_finalising_bg sp s w br FrDisabled false in
      ROut {| o_status := Some (if done then set_rphase s1 RpDisabled else s1); o_br := br'; o_remove_progress_anno := anno; o_finalizer := fin;
              o_requeue := negb done; o_err := false |}
    | _ => reconcile sp st w br
    end
  end.
