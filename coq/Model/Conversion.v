(* Model of api/v1alpha1/conversion.go for Rollout and BatchRelease, over the fields the conversion
   has logic for; pure pass-through groups are carried as opaque digests. *)
From RV Require Import Base.Util Base.IntStr.

Definition oios_eqb := opt_eqb ios_eqb.
Definition oz_eqb := opt_eqb Z.eqb.
Definition ostr_eqb := opt_eqb String.eqb.

(* ---------- Rollout ---------- *)
Record alpha_step := { as_weight : option Z; as_replicas : option ios; as_pause : option Z;
                       as_hdrmod : string; as_matches : list string (* digest of each match's headers *) }.
Record alpha_canary := { ac_steps : list alpha_step; ac_trs : list string; ac_ft : option ios; ac_patch : option (string * string) }.
Record rstatus_proj := { st_gen : Z; st_phase : string; st_msg : string; st_conds : string; st_canary : option string }.
Record alpha_rollout := {
  a_style : option string;      (* annotation rollouts.kruise.io/rolling-style *)
  a_trref : option string;      (* annotation rollouts.kruise.io/trafficrouting *)
  a_wref : option (string * string * string);
  a_disabled : bool; a_paused : bool;
  a_canary : option alpha_canary;
  a_status : rstatus_proj
}.

Record beta_step := { bs_traffic : option string; bs_replicas : option ios; bs_pause : option Z;
                      bs_hdrmod : string; bs_matches : list (string * string) (* headers digest, digest of path+query ("" if none) *) }.
Record beta_canary := { bc_steps : list beta_step; bc_trs : list string; bc_ft : option ios; bc_patch : option (string * string);
                        bc_extra : bool; bc_trref : string; bc_nosvc : bool (* disableGenerateCanaryService *) }.
Record beta_rollout := {
  b_style : option string; b_trref : option string;     (* the same two annotations (metadata is copied) *)
  b_wref : string * string * string;
  b_disabled : bool; b_paused : bool;
  b_canary : option beta_canary;
  b_bluegreen : bool;            (* strategy.blueGreen present *)
  b_status : rstatus_proj;
  b_bgstatus : bool              (* status.blueGreenStatus present *)
}.

(* strings.ToLower / EqualFold restricted to ASCII letters *)
Definition lower_ascii (c : ascii) : ascii :=
  let n := nat_of_ascii c in if (Nat.leb 65 n && Nat.leb n 90)%bool then ascii_of_nat (n + 32) else c.
Fixpoint lower (s : string) : string := match s with EmptyString => EmptyString | String c r => String (lower_ascii c) (lower r) end.
Definition equal_fold (a b : string) : bool := String.eqb (lower a) (lower b).

Definition pct_string (w : Z) : string := itoa w ++ "%".
(* ConversionToV1alpha1TrafficRoutingStrategy: intstr.FromString(traffic) scaled against 100, errors ignored *)
Definition weight_of_traffic (t : string) : Z :=
  if has_suffix t "%" then
    match atoi (substring 0 (String.length t - 1) t) with Some p => scaled true (IPct p) 100 | None => 0 end
  else 0.

Definition to_beta_step (s : alpha_step) : beta_step :=
  {| bs_traffic := match as_weight s with Some w => Some (pct_string w) | None => None end;
     bs_replicas := match as_replicas s, as_weight s with
                    | None, Some w => Some (IPct w)
                    | r, _ => r end;
     bs_pause := as_pause s; bs_hdrmod := as_hdrmod s;
     bs_matches := map (fun h => (h, "")) (as_matches s) |}.
Definition to_alpha_step (s : beta_step) : alpha_step :=
  {| as_weight := match bs_traffic s with Some t => Some (weight_of_traffic t) | None => None end;
     as_replicas := bs_replicas s; as_pause := bs_pause s; as_hdrmod := bs_hdrmod s;
     as_matches := map fst (bs_matches s) |}.

Definition style_is (a : option string) (v : string) : bool := equal_fold (match a with Some s => s | None => "" end) v.

Definition empty_canary : alpha_canary := {| ac_steps := []; ac_trs := []; ac_ft := None; ac_patch := None |}.
Definition empty_wref : string * string * string := ("", "", "").

(* Rollout.ConvertTo.  Since the fix of F10 absent optional blocks are converted as empty ones
   (before it: nil pointer dereference). *)
Definition rollout_to_beta (a : alpha_rollout) : outcome beta_rollout :=
  let w := match a_wref a with Some w => w | None => empty_wref end in
  let c := match a_canary a with Some c => c | None => empty_canary end in
  Ok {| b_style := a_style a; b_trref := a_trref a; b_wref := w; b_disabled := a_disabled a; b_paused := a_paused a;
        b_canary := Some {| bc_steps := map to_beta_step (ac_steps c); bc_trs := ac_trs c; bc_ft := ac_ft c; bc_patch := ac_patch c;
                            bc_extra := negb (style_is (a_style a) "partition");
                            bc_trref := match a_trref a with Some t => t | None => "" end;
                            bc_nosvc := false |};
        b_bluegreen := false; b_status := a_status a; b_bgstatus := false |}.

Definition meta_only (b : beta_rollout) : alpha_rollout :=
  {| a_style := b_style b; a_trref := b_trref b; a_wref := None; a_disabled := false; a_paused := false; a_canary := None;
     a_status := {| st_gen := 0; st_phase := ""; st_msg := ""; st_conds := ""; st_canary := None |} |}.

(* Rollout.ConvertFrom: only metadata is copied for a blue-green Rollout and (since the fix of F10) for
   a strategy with neither canary nor blueGreen *)
Definition rollout_to_alpha (b : beta_rollout) : outcome alpha_rollout :=
  if b_bluegreen b then Ok (meta_only b)
  else match b_canary b with
  | None => Ok (meta_only b)
  | Some c =>
    Ok {| a_style := Some (if bc_extra c then "canary" else "partition");
          a_trref := if sempty (bc_trref c) then b_trref b else Some (bc_trref c);
          a_wref := Some (b_wref b); a_disabled := b_disabled b; a_paused := b_paused b;
          a_canary := Some {| ac_steps := map to_alpha_step (bc_steps c); ac_trs := bc_trs c; ac_ft := bc_ft c; ac_patch := bc_patch c |};
          a_status := b_status b |}
  end.

(* ---------- BatchRelease ---------- *)
Record alpha_br := {
  ab_style : option string;                 (* annotation *)
  ab_wref : option (string * string * string);
  ab_plan : string;                         (* digest: batches, batchPartition, rolloutID, failureThreshold, finalizingPolicy, patch metadata *)
  ab_rolling : string;                      (* spec.releasePlan.rollingStyle *)
  ab_extra : bool;
  ab_status : string                        (* digest of the status fields *)
}.
Record beta_br := { bb_style : option string; bb_wref : string * string * string; bb_plan : string; bb_rolling : string; bb_extra : bool; bb_status : string }.

Definition br_to_beta (a : alpha_br) : outcome beta_br :=
  match Some (match ab_wref a with Some w => w | None => ("", "", "") end) with
  | None => Panic
  | Some w =>
    Ok {| bb_style := ab_style a; bb_wref := w; bb_plan := ab_plan a;
          (* the annotation wins; since the fix of F24 the spec field is the fallback *)
          bb_rolling := if style_is (ab_style a) "bluegreen" then "BlueGreen"
                        else if style_is (ab_style a) "canary" then "Canary"
                        else if style_is (ab_style a) "partition" then "Partition" else ab_rolling a;
          bb_extra := ab_extra a; bb_status := ab_status a |}
  end.
Definition br_to_alpha (b : beta_br) : alpha_br :=
  {| ab_style := Some (lower (bb_rolling b)); ab_wref := Some (bb_wref b); ab_plan := bb_plan b;
     ab_rolling := bb_rolling b; ab_extra := bb_extra b; ab_status := bb_status b |}.

(* ---------- same meaning ---------- *)
(* a weight-only v1alpha1 step means "replicas = weight%" *)
Definition eff_replicas (s : alpha_step) : option ios :=
  match as_replicas s, as_weight s with None, Some w => Some (IPct w) | r, _ => r end.
Definition alpha_step_same (x y : alpha_step) : bool :=
  oz_eqb (as_weight x) (as_weight y) && oios_eqb (eff_replicas x) (eff_replicas y) && oz_eqb (as_pause x) (as_pause y) &&
  String.eqb (as_hdrmod x) (as_hdrmod y) && list_eqb String.eqb (as_matches x) (as_matches y).
Definition patch_eqb := opt_eqb (fun (x y : string * string) => String.eqb (fst x) (fst y) && String.eqb (snd x) (snd y)).
Definition wref_eqb (x y : string * string * string) : bool :=
  let '(a1, a2, a3) := x in let '(b1, b2, b3) := y in String.eqb a1 b1 && String.eqb a2 b2 && String.eqb a3 b3.
Definition status_eqb (x y : rstatus_proj) : bool :=
  (st_gen x =? st_gen y) && String.eqb (st_phase x) (st_phase y) && String.eqb (st_msg x) (st_msg y) &&
  String.eqb (st_conds x) (st_conds y) && ostr_eqb (st_canary x) (st_canary y).
(* style: "partition" (any case) means partition, anything else canary *)
Definition alpha_same (x y : alpha_rollout) : bool :=
  Bool.eqb (style_is (a_style x) "partition") (style_is (a_style y) "partition") &&
  String.eqb (match a_trref x with Some t => t | None => "" end) (match a_trref y with Some t => t | None => "" end) &&
  (* an absent workloadRef / canary block means the same as an empty one *)
  wref_eqb (match a_wref x with Some w => w | None => empty_wref end) (match a_wref y with Some w => w | None => empty_wref end) &&
  Bool.eqb (a_disabled x) (a_disabled y) && Bool.eqb (a_paused x) (a_paused y) &&
  (fun c d => list_eqb alpha_step_same (ac_steps c) (ac_steps d) && list_eqb String.eqb (ac_trs c) (ac_trs d) &&
              oios_eqb (ac_ft c) (ac_ft d) && patch_eqb (ac_patch c) (ac_patch d))
    (match a_canary x with Some c => c | None => empty_canary end) (match a_canary y with Some c => c | None => empty_canary end) &&
  status_eqb (a_status x) (a_status y).

Definition style_class (a : option string) : string :=
  if style_is a "bluegreen" then "BlueGreen" else if style_is a "canary" then "Canary" else if style_is a "partition" then "Partition" else "".
Definition br_style (x : alpha_br) : string := if sempty (style_class (ab_style x)) then ab_rolling x else style_class (ab_style x).
Definition br_same (x y : alpha_br) : bool :=
  equal_fold (br_style x) (br_style y) &&
  wref_eqb (match ab_wref x with Some w => w | None => empty_wref end) (match ab_wref y with Some w => w | None => empty_wref end) &&
  String.eqb (ab_plan x) (ab_plan y) &&
  Bool.eqb (ab_extra x) (ab_extra y) && String.eqb (ab_status x) (ab_status y).
