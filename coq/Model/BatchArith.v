(* Batch arithmetic of the seven workload controls: CalculateBatchContext + UpgradeBatch
   (pkg/controller/batchrelease/control/**/control.go, control/util.go, deployment_util.go). *)
From RV Require Import Base.Util Base.IntStr.

Inductive kind :=
  | CloneSetK | StsK (unordered : bool) | DaemonK | DeployPartK | DeployCanaryK | BGDeployK | BGCloneK.

Definition kind_eqb (a b : kind) : bool :=
  match a, b with
  | CloneSetK, CloneSetK | DaemonK, DaemonK | DeployPartK, DeployPartK | DeployCanaryK, DeployCanaryK
  | BGDeployK, BGDeployK | BGCloneK, BGCloneK => true
  | StsK x, StsK y => Bool.eqb x y
  | _, _ => false
  end.

(* control.CalculateBatchReplicas *)
Definition planned_of (step : ios) (n : Z) : Z :=
  let s := scaled true step n in if n <? s then n else if s <? 0 then 0 else s.

Definition is_pct100 (v : ios) : bool := match v with IPct 100 => true | _ => false end.
Definition is_str (v : ios) : bool := match v with IInt _ => false | _ => true end.

(* control.ParseIntegerAsPercentageIfPossible stable all plan *)
Definition one_pct_arm (stable n : Z) (plan : ios) : bool :=
  negb (n <=? stable) && negb (stable <=? 0) &&
  (scaled true (IPct (stable * 100 / n)) n <=? 0) && negb (is_pct100 plan).
Definition parse_pct (stable n : Z) (plan : ios) : ios :=
  if n <=? stable then IPct 100 else if stable <=? 0 then IPct 0 else
  if one_pct_arm stable n plan then IPct 1 else IPct (stable * 100 / n).

(* deploymentutil.NewRSReplicasLimit *)
Definition new_rs_limit (part : ios) (n : Z) : Z :=
  let l := Z.max (Z.min (scaled true part n) n) 0 in
  if (1 <? n) && is_str part && negb (is_pct100 part) then Z.min l (n - 1) else l.

(* control.IsCurrentMoreThanOrEqualToDesired *)
Definition cur_ge_desired (cur des : ios) : bool := scaled true des 10000000 <=? scaled true cur 10000000.

Record arith_in := {
  a_kind : kind; a_plan : list ios; a_n : Z; a_cur : Z;
  a_noneed : option Z;          (* status.canaryStatus.noNeedUpdateReplicas *)
  a_knob : option ios           (* the workload's current partition / canary replicas / maxSurge; None = field absent *)
}.

Record arith_ctx := { c_planned : Z; c_desired : Z; c_target : ios; c_current : ios }.

Definition knob_default (k : kind) (v : option ios) : ios :=
  match v with
  | None => IInt 0
  | Some x => match k with
              | BGDeployK | BGCloneK => if ios_eqb x (IInt 1) then IInt 0 else x   (* maxSurge 1 is the initial, "nothing released" value *)
              | _ => x
              end
  end.

Definition calc_ctx (a : arith_in) : option arith_ctx :=
  match znth (a_plan a) (a_cur a) with
  | None => None                                   (* Batches[currentBatch] out of range: panic *)
  | Some step =>
    let n := a_n a in
    let planned := planned_of step n in
    let cur := knob_default (a_kind a) (a_knob a) in
    (* partition-style with rollback-in-batches bookkeeping *)
    let '(desired_stable, desired_update) :=
        match a_noneed a with
        | Some nn => if 0 <? nn then
                       let dn := planned_of step (n - nn) in
                       let ds := n - nn - dn in (ds, n - ds)
                     else (n - planned, planned)
        | None => (n - planned, planned)
        end in
    Some match a_kind a with
    | CloneSetK =>
      {| c_planned := planned; c_desired := desired_update;
         c_target := if is_str step then parse_pct desired_stable n step else IInt desired_stable;
         c_current := cur |}
    | StsK unordered =>
      let '(ds, du) := match a_noneed a with
                       | Some nn => if unordered then (desired_stable, desired_update)
                                    else (desired_stable + nn, n - (desired_stable + nn) + nn)
                       | None => (desired_stable, desired_update) end in
      {| c_planned := planned; c_desired := du; c_target := IInt ds; c_current := cur |}
    | DaemonK =>
      {| c_planned := planned; c_desired := desired_update;
         c_target := IInt (if desired_stable <=? 0 then 0 else desired_stable); c_current := cur |}
    | DeployPartK =>
      let l := new_rs_limit step n in {| c_planned := l; c_desired := l; c_target := step; c_current := cur |}
    | DeployCanaryK =>
      {| c_planned := 0; c_desired := planned; c_target := IInt planned; c_current := cur |}
    | BGDeployK =>
      let l := new_rs_limit step n in {| c_planned := l; c_desired := l; c_target := step; c_current := cur |}
    | BGCloneK =>
      let d := scaled true step n in {| c_planned := d; c_desired := d; c_target := step; c_current := cur |}
    end
  end.

(* UpgradeBatch: Some k' = the knob is patched to k'; None = no API write *)
Definition upgrade (k : kind) (c : arith_ctx) (n : Z) : option ios :=
  match k with
  | CloneSetK =>
    let desired := scaled true (c_target c) n in
    let current := scaled true (c_current c) n in
    if current <=? desired then None else Some (c_target c)
  | StsK _ | DaemonK =>
    match c_current c, c_target c with
    | IInt cur, IInt des => if cur <=? des then None else Some (IInt des)
    | _, _ => None
    end
  | DeployPartK => if cur_ge_desired (c_current c) (c_target c) then None else Some (c_target c)
  | DeployCanaryK =>
    match c_current c with
    | IInt cur => if c_desired c <=? cur then None else Some (IInt (c_desired c))
    | _ => None
    end
  | BGDeployK | BGCloneK =>
    let desired := scaled true (c_target c) n in
    let current := scaled true (c_current c) n in
    if desired <=? current then None else Some (c_target c)
  end.

(* Pods of the new revision that the workload's own controller may run under a knob value
   (assumed semantics of the CloneSet / StatefulSet / DaemonSet / Deployment controllers; for the
   partition Deployment it is this repository's advanced deployment controller, see C17). *)
Definition exposed (k : kind) (knob : ios) (n : Z) : Z :=
  match k with
  | CloneSetK | StsK _ | DaemonK => Z.max 0 (n - Z.max 0 (scaled true knob n))
  | DeployPartK => new_rs_limit knob n
  | DeployCanaryK => Z.max 0 (scaled true knob n)
  | BGDeployK | BGCloneK => Z.max 0 (Z.min n (scaled true knob n))
  end.

Definition knob_after (a : arith_in) (c : arith_ctx) : ios :=
  match upgrade (a_kind a) c (a_n a) with Some k' => k' | None => c_current c end.

(* ---- property clauses (C01, C07) on a context and the knob after UpgradeBatch ---- *)
Definition nn_of (a : arith_in) : Z := match a_noneed a with Some nn => if 0 <? nn then nn else 0 | None => 0 end.

(* C01: exposure after the write is within the step's allowance plus 1% rounding slack.  With
   rollback-in-batches the allowance is the step applied to the pods that really need the update. *)
Definition within_step (a : arith_in) (step : ios) (kn : ios) : bool :=
  let n := a_n a in
  let nn := match a_kind a with CloneSetK | StsK _ | DaemonK => nn_of a | _ => 0 end in
  (* unordered kinds count the no-need pods as already updated; an ordered StatefulSet keeps them below the partition *)
  let e := exposed (a_kind a) kn n - (match a_kind a with StsK false => 0 | _ => nn end) in
  let allowed := planned_of step (n - nn) in
  (e <=? allowed) || (100 * (e - allowed) <=? n).

(* C01: an API write never lowers the exposure *)
Definition not_backwards (a : arith_in) (c : arith_ctx) : bool :=
  match upgrade (a_kind a) c (a_n a) with
  | Some k' => exposed (a_kind a) (c_current c) (a_n a) <=? exposed (a_kind a) k' (a_n a)
  | None => true
  end.

(* C07: what the knob admits is enough for IsBatchReady's first clause *)
Definition suffices (a : arith_in) (desired : Z) (kn : ios) : bool :=
  (* an ordered StatefulSet in rollback-in-batches counts the no-need pods (already on the target
     revision, below the partition) in DesiredUpdatedReplicas *)
  desired <=? exposed (a_kind a) kn (a_n a) + (match a_kind a with StsK false => nn_of a | _ => 0 end).

(* ---- regions of the known findings (inputs on which the code as it stands does not meet C01/C07) ---- *)
Definition same_type (a b : ios) : bool := Bool.eqb (is_str a) (is_str b).
(* F1: CloneSet percent plan taking the "1%" arm of ParseIntegerAsPercentageIfPossible *)
Definition f1_region (a : arith_in) : bool :=
  match a_kind a, calc_ctx a, znth (a_plan a) (a_cur a) with
  | CloneSetK, Some c, Some step => is_str step && one_pct_arm (a_n a - c_desired c) (a_n a) step
  | _, _, _ => false
  end.
(* F12: partition Deployment whose current and desired partition have different types *)
Definition f12_region (a : arith_in) : bool :=
  match a_kind a, calc_ctx a with
  | DeployPartK, Some c => negb (same_type (c_current c) (c_target c))
  | _, _ => false
  end.
(* F21: blue-green CloneSet step larger than the workload *)
Definition f21_region (a : arith_in) : bool :=
  match a_kind a, calc_ctx a with
  | BGCloneK, Some c => a_n a <? c_desired c
  | _, _ => false
  end.
