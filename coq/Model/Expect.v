(* Model of pkg/util/expectation (ResourceExpectations): a process-wide store, keyed by the owning BatchRelease's
   "namespace/name", of the objects it has created and not yet seen in its informer.  Timeouts are left out: an expectation
   only ever delays its own key. *)
From RV Require Import Base.Util Base.IntStr.

Definition eitem := (bool * string)%type.           (* create / delete, object UID *)
Definition eitem_eqb (a b : eitem) : bool := Bool.eqb (fst a) (fst b) && String.eqb (snd a) (snd b).
Definition estore := string -> list eitem.
Definition eempty : estore := fun _ => [].
Inductive eop := EExpect (k : string) (it : eitem) | EObserve (k : string) (it : eitem) | ESatisfied (k : string) | EDelete (k : string).
Definition ekey (o : eop) : string := match o with EExpect k _ | EObserve k _ | ESatisfied k | EDelete k => k end.
Definition eupd (s : estore) (k : string) (v : list eitem) : estore := fun k' => if String.eqb k' k then v else s k'.
Definition estep (s : estore) (o : eop) : estore * option bool :=
  match o with
  | EExpect k it => (eupd s k (if existsb (eitem_eqb it) (s k) then s k else it :: s k), None)
  | EObserve k it => (eupd s k (filter (fun x => negb (eitem_eqb it x)) (s k)), None)
  | ESatisfied k => (s, Some (match s k with [] => true | _ => false end))
  | EDelete k => (eupd s k [], None)
  end.
(* the answers to the SatisfiedExpectations calls of one key *)
Fixpoint eanswers (mine : string) (s : estore) (ops : list eop) : list bool :=
  match ops with
  | [] => []
  | o :: t => let '(s', a) := estep s o in
              match a with Some b => if String.eqb (ekey o) mine then b :: eanswers mine s' t else eanswers mine s' t | None => eanswers mine s' t end
  end.

(* the controller key: namespace/name of the BatchRelease (canary.go: client.ObjectKeyFromObject(release).String();
   batchrelease_event_handler.go: getControllerKey) *)
Definition controller_key (ns name : string) : string := (ns ++ "/" ++ name)%string.

(* names of generated objects: getCanaryServiceName (pkg/trafficrouting/manager.go) and the canary Ingress name *)
Definition canary_service_name (stable : string) : string := (stable ++ "-canary")%string.

(* the registry of dynamically watched workload types (rollout_controller.go: watchedWorkload / AddWatcherDynamically): one
   Rollout reconcile of a workload type [g]; [watch_ok]: does registering the watch succeed *)
Inductive wres := WProceed | WWatchedNow | WError.
Definition watch_step (watched : list string) (g : string) (watch_ok : bool) : wres * list string :=
  if existsb (String.eqb g) watched then (WProceed, watched)
  else if watch_ok then (WWatchedNow, g :: watched) else (WError, watched).
Fixpoint watch_run (watched : list string) (ops : list (string * bool)) : list wres :=
  match ops with [] => [] | (g, ok) :: t => let '(r, w') := watch_step watched g ok in r :: watch_run w' t end.
