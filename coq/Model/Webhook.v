(* Model of the workload mutating webhooks
   (pkg/webhook/workload/mutating/workload_update_handler.go and unified_update_handler.go):
   Handle, checkWorkloadRules (rule matching itself is an input), handleCloneSet, handleDaemonSet, handleDeployment,
   handleStatefulSetLikeWorkload, fetchMatchedRollout, isEffectiveDeploymentRevisionChange. *)
From RV Require Import Base.Util Base.IntStr.

Record rollout_ref := {
  rr_name : string; rr_deleting : bool; rr_disabled_phase : bool;
  rr_apiversion_ok : bool;                  (* schema.ParseGroupVersion(workloadRef.apiVersion) succeeds *)
  rr_group : string; rr_kind : string; rr_wlname : string;
  rr_empty : bool;                          (* neither canary nor blueGreen strategy *)
  rr_traffic : bool                         (* the strategy has traffic routings *)
}.

(* KOther: anything served by the unified handler (native / advanced StatefulSet, custom StatefulSet-like kinds) *)
Inductive wkind := KCloneSet | KDaemonSet | KDeployment | KOther (group kind : string).
Definition wkind_group (k : wkind) : string := match k with KDeployment => "apps" | KOther g _ => g | _ => "apps.kruise.io" end.
Definition wkind_kind (k : wkind) : string :=
  match k with KCloneSet => "CloneSet" | KDaemonSet => "DaemonSet" | KDeployment => "Deployment" | KOther _ k => k end.

Inductive dstyle := DsNone | DsPartition | DsOther.     (* rolling style in the deployment-strategy annotation *)
Inductive stype := StRolling | StRecreate | StEmpty.

(* the part of the admitted object the handlers may change *)
Record wpatch := {
  wp_progress : string;                     (* annotation rollouts.kruise.io/in-progressing, "" when absent *)
  wp_partition : option ios;                (* CloneSet spec.updateStrategy.partition *)
  wp_ds_partition : option Z;               (* DaemonSet spec.updateStrategy.rollingUpdate.partition *)
  wp_paused : bool; wp_stype : stype; wp_ru : option string (* digest of spec.strategy.rollingUpdate *);
  wp_anno_paused : bool;                    (* paused flag inside the deployment-strategy annotation *)
  wp_anno_written : bool;                   (* the deployment-strategy annotation was (re)written *)
  wp_stable_label : string;                 (* label rollouts.kruise.io/deployment-stable-revision *)
  wp_sts_partition : option Z; wp_sts_type : string
}.

Record wobj := {
  wo_name : string;
  wo_replicas : option Z;
  wo_rid : string;                          (* annotation rollouts.kruise.io/rollout-id *)
  wo_tmpl : string;                         (* digest of the pod template without the pod-template-hash label *)
  wo_f : wpatch;                            (* current values of the fields the handlers write *)
  wo_st_replicas : Z; wo_st_updated : Z;    (* CloneSet status *)
  wo_ds_rolling : bool;                     (* DaemonSet spec.updateStrategy.rollingUpdate present *)
  wo_style : dstyle;
  wo_original : bool;                       (* blue-green original-strategy annotation present and non-empty *)
  wo_sts_label : bool;                      (* label rollouts.kruise.io/workload-type is "statefulset" (any case) *)
  wo_sts_has_us : bool;                     (* spec.updateStrategy is an object *)
  wo_has_tmpl : bool                        (* spec.template present *)
}.

(* a ReplicaSet in the Deployment's namespace selected by its selector; revisions are distinct integers *)
Record rs_ref := { rs_rev : Z; rs_replicas : Z; rs_deleting : bool; rs_owned : bool (* controller ref carries the Deployment's UID *);
  rs_tmpl : string; rs_hash : string }.

Record winput := { wi_kind : wkind; wi_new : wobj; wi_old : wobj; wi_rollouts : list rollout_ref; wi_rss : list rs_ref;
  wi_update : bool;                         (* operation UPDATE on the main resource *)
  wi_rule : bool;                           (* some rule of the MutatingWebhookConfiguration matches the request *)
  wi_selector : list (string * string);     (* matchLabels of that webhook's objectSelector *)
  wi_labels : list (string * string) }.

Inductive wresult := WUnchanged | WPatched (p : wpatch) | WError | WPanic.

Definition set_progress v p := {| wp_progress := v; wp_partition := wp_partition p; wp_ds_partition := wp_ds_partition p; wp_paused := wp_paused p;
  wp_stype := wp_stype p; wp_ru := wp_ru p; wp_anno_paused := wp_anno_paused p; wp_anno_written := wp_anno_written p; wp_stable_label := wp_stable_label p;
  wp_sts_partition := wp_sts_partition p; wp_sts_type := wp_sts_type p |}.
Definition set_partition v p := {| wp_progress := wp_progress p; wp_partition := v; wp_ds_partition := wp_ds_partition p; wp_paused := wp_paused p;
  wp_stype := wp_stype p; wp_ru := wp_ru p; wp_anno_paused := wp_anno_paused p; wp_anno_written := wp_anno_written p; wp_stable_label := wp_stable_label p;
  wp_sts_partition := wp_sts_partition p; wp_sts_type := wp_sts_type p |}.
Definition set_ds_partition v p := {| wp_progress := wp_progress p; wp_partition := wp_partition p; wp_ds_partition := v; wp_paused := wp_paused p;
  wp_stype := wp_stype p; wp_ru := wp_ru p; wp_anno_paused := wp_anno_paused p; wp_anno_written := wp_anno_written p; wp_stable_label := wp_stable_label p;
  wp_sts_partition := wp_sts_partition p; wp_sts_type := wp_sts_type p |}.
Definition set_paused v p := {| wp_progress := wp_progress p; wp_partition := wp_partition p; wp_ds_partition := wp_ds_partition p; wp_paused := v;
  wp_stype := wp_stype p; wp_ru := wp_ru p; wp_anno_paused := wp_anno_paused p; wp_anno_written := wp_anno_written p; wp_stable_label := wp_stable_label p;
  wp_sts_partition := wp_sts_partition p; wp_sts_type := wp_sts_type p |}.
Definition set_strategy t ru p := {| wp_progress := wp_progress p; wp_partition := wp_partition p; wp_ds_partition := wp_ds_partition p; wp_paused := wp_paused p;
  wp_stype := t; wp_ru := ru; wp_anno_paused := wp_anno_paused p; wp_anno_written := wp_anno_written p; wp_stable_label := wp_stable_label p;
  wp_sts_partition := wp_sts_partition p; wp_sts_type := wp_sts_type p |}.
Definition set_anno v p := {| wp_progress := wp_progress p; wp_partition := wp_partition p; wp_ds_partition := wp_ds_partition p; wp_paused := wp_paused p;
  wp_stype := wp_stype p; wp_ru := wp_ru p; wp_anno_paused := v; wp_anno_written := true; wp_stable_label := wp_stable_label p;
  wp_sts_partition := wp_sts_partition p; wp_sts_type := wp_sts_type p |}.
Definition set_stable v p := {| wp_progress := wp_progress p; wp_partition := wp_partition p; wp_ds_partition := wp_ds_partition p; wp_paused := wp_paused p;
  wp_stype := wp_stype p; wp_ru := wp_ru p; wp_anno_paused := wp_anno_paused p; wp_anno_written := wp_anno_written p; wp_stable_label := v;
  wp_sts_partition := wp_sts_partition p; wp_sts_type := wp_sts_type p |}.
Definition set_sts v t p := {| wp_progress := wp_progress p; wp_partition := wp_partition p; wp_ds_partition := wp_ds_partition p; wp_paused := wp_paused p;
  wp_stype := wp_stype p; wp_ru := wp_ru p; wp_anno_paused := wp_anno_paused p; wp_anno_written := wp_anno_written p; wp_stable_label := wp_stable_label p;
  wp_sts_partition := v; wp_sts_type := t |}.

(* fetchMatchedRollout: the first Rollout of the namespace that is neither deleting nor disabled and references the workload *)
Definition rollout_matches (k : wkind) (name : string) (r : rollout_ref) : bool :=
  negb (rr_deleting r) && negb (rr_disabled_phase r) && rr_apiversion_ok r &&
  String.eqb (rr_group r) (wkind_group k) && String.eqb (rr_kind r) (wkind_kind k) && String.eqb (rr_wlname r) name.
Definition matched (k : wkind) (name : string) (rs : list rollout_ref) : option rollout_ref := find (rollout_matches k name) rs.

(* the release-change test shared by all handlers *)
Definition release_change (new old : wobj) : bool :=
  if negb (sempty (wo_rid new)) && String.eqb (wo_rid old) (wo_rid new) then false
  else if sempty (wo_rid new) && String.eqb (wo_tmpl old) (wo_tmpl new) then false
  else true.

Definition state_json (name : string) : string := ("{""rolloutName"":""" ++ name ++ """}")%string.
Definition zero_replicas (o : wobj) : bool := match wo_replicas o with Some 0 => true | _ => false end.
Definition max_int16 : Z := 32767.

Definition handle_cloneset (i : winput) : wresult :=
  let n := wi_new i in
  if zero_replicas n then WUnchanged else
  if negb (release_change n (wi_old i)) then WUnchanged else
  match matched KCloneSet (wo_name n) (wi_rollouts i) with
  | None => WUnchanged
  | Some r =>
    if rr_empty r then WUnchanged else
    if rr_traffic r && negb (wo_st_replicas n =? wo_st_updated n) then WUnchanged else
    WPatched (set_progress (state_json (rr_name r)) (set_partition (Some (IPct 100)) (wo_f n)))
  end.

Definition handle_daemonset (i : winput) : wresult :=
  let n := wi_new i in
  if negb (release_change n (wi_old i)) then WUnchanged else
  match matched KDaemonSet (wo_name n) (wi_rollouts i) with
  | None => WUnchanged
  | Some r =>
    if rr_empty r then WUnchanged else
    WPatched (set_progress (state_json (rr_name r)) (set_ds_partition (Some max_int16) (wo_f n)))
  end.

Definition is_rolling t := match t with StRolling => true | _ => false end.
Definition is_recreate t := match t with StRecreate => true | _ => false end.
Definition is_some {A} (o : option A) := match o with Some _ => true | None => false end.

(* GetReplicaSetsForDeployment and the stable pick of FindCanaryAndStableReplicaSet (lowest revision among the
   active ReplicaSets that have pods and a template different from the submitted one) *)
Definition rs_active (rs : rs_ref) : bool := negb (rs_deleting rs) && negb (rs_replicas rs =? 0) && rs_owned rs.
Definition lower_rev (a : option rs_ref) (b : rs_ref) : option rs_ref :=
  match a with None => Some b | Some x => if rs_rev b <? rs_rev x then Some b else Some x end.
Definition stable_rs (tmpl : string) (rss : list rs_ref) : option rs_ref :=
  fold_left lower_rev (filter (fun rs => negb (String.eqb (rs_tmpl rs) tmpl) && (0 <? rs_replicas rs)) (filter rs_active rss)) None.

Definition handle_deployment (i : winput) : wresult :=
  let n := wi_new i in let o := wi_old i in let f := wo_f n in
  if negb (sempty (wp_progress f)) then
    (* a release is in progress: edits that would let the native controller act are corrected *)
    match wo_style n with
    | DsPartition =>
      let change := release_change n o in
      if negb (wp_paused f) || is_rolling (wp_stype f) || is_some (wp_ru f) || change then
        WPatched (set_anno (wp_anno_paused f || change)
                 (set_strategy (if is_rolling (wp_stype f) then StRecreate else wp_stype f) None (set_paused true f)))
      else WUnchanged     (* the annotation is rewritten on the copy, but the copy is dropped *)
    | _ =>
      if wo_original n then
        let change := release_change n o in
        let fix_type := negb (is_rolling (wp_stype f)) in
        if change || fix_type then
          WPatched (set_strategy (if fix_type then wp_stype (wo_f o) else wp_stype f) (wp_ru f) (set_paused (wp_paused f || change) f))
        else WUnchanged
      else
        let recreate := is_recreate (wp_stype f) in
        if negb (wp_paused f) || recreate then
          WPatched (set_strategy (if recreate then wp_stype (wo_f o) else wp_stype f) (if recreate then wp_ru (wo_f o) else wp_ru f) (set_paused true f))
        else WUnchanged
    end
  else
  if zero_replicas n then WUnchanged else
  if negb (release_change n o) then WUnchanged else
  match matched KDeployment (wo_name n) (wi_rollouts i) with
  | None => WUnchanged
  | Some r =>
    if rr_empty r then WUnchanged else
    let active := filter rs_active (wi_rss i) in
    if zlen active =? 0 then WUnchanged else
    if rr_traffic r && negb (zlen active =? 1) then WUnchanged else
    WPatched (set_progress (state_json (rr_name r)) (set_paused true
             (match stable_rs (wo_tmpl n) (wi_rss i) with Some rs => set_stable (rs_hash rs) f | None => f end)))
  end.

Definition handle_stateful (g k : string) (i : winput) : wresult :=
  let n := wi_new i in let o := wi_old i in let f := wo_f n in
  if negb (wo_sts_label n) && negb (String.eqb k "StatefulSet") then WUnchanged else
  if zero_replicas n then WUnchanged else
  if negb (sempty (wp_sts_type f) || String.eqb (wp_sts_type f) "RollingUpdate") then WUnchanged else
  if negb (wo_has_tmpl o) || negb (wo_has_tmpl n) then WUnchanged else
  if negb (release_change n o) then WUnchanged else
  match matched (KOther g k) (wo_name n) (wi_rollouts i) with
  | None => WUnchanged
  | Some r =>
    if rr_empty r then WUnchanged else
    WPatched (set_progress (state_json (rr_name r))
             (set_sts (Some max_int16) (if wo_sts_has_us n then wp_sts_type f else "RollingUpdate") f))
  end.

Fixpoint lookup_label (k : string) (l : list (string * string)) : option string :=
  match l with [] => None | (k', v) :: t => if String.eqb k k' then Some v else lookup_label k t end.
Definition selected (i : winput) : bool :=
  wi_update i && wi_rule i &&
  forallb (fun kv => match lookup_label (fst kv) (wi_labels i) with Some v => String.eqb v (snd kv) | None => false end) (wi_selector i).

Definition handle (i : winput) : wresult :=
  if negb (selected i) then WUnchanged else
  match wi_kind i with
  | KCloneSet => handle_cloneset i | KDaemonSet => handle_daemonset i | KDeployment => handle_deployment i
  | KOther g k => handle_stateful g k i
  end.
