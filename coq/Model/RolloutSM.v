(* Model of one Rollout reconcile (rollout_controller.go, rollout_status.go, rollout_progressing.go,
   rollout_canary.go, rollout_releaseManager.go) for a canary-strategy Rollout over a CloneSet, without
   traffic routing (the traffic manager's calls return immediately when no routing is configured).
   Every Go slice index / pointer dereference on the path is an explicit Panic outcome. *)
From RV Require Import Base.Util Base.IntStr.

Inductive rphase := RpEmpty | RpInitial | RpHealthy | RpProgressing | RpTerminating | RpDisabled | RpDisabling.
Inductive preason := PrInitializing | PrInRolling | PrFinalising | PrPaused | PrCancelling | PrCompleted | PrOther.
Inductive sstate := StInit | StUpgrade | StTraffic | StMetrics | StPaused | StReady | StCompleted | StOther.
(* finalisingStep values *)
Inductive ftask := FtNone | FtRestoreStable | FtRouteStable | FtRemoveCanarySvc | FtResume | FtRelease | FtEnd | FtOther.
Inductive freason := FrSuccess | FrRollback | FrDelete | FrDisabled.

Definition rphase_eqb (a b : rphase) : bool :=
  match a, b with RpEmpty, RpEmpty | RpInitial, RpInitial | RpHealthy, RpHealthy | RpProgressing, RpProgressing
  | RpTerminating, RpTerminating | RpDisabled, RpDisabled | RpDisabling, RpDisabling => true | _, _ => false end.
Definition preason_eqb (a b : preason) : bool :=
  match a, b with PrInitializing, PrInitializing | PrInRolling, PrInRolling | PrFinalising, PrFinalising | PrPaused, PrPaused
  | PrCancelling, PrCancelling | PrCompleted, PrCompleted | PrOther, PrOther => true | _, _ => false end.
Definition sstate_eqb (a b : sstate) : bool :=
  match a, b with StInit, StInit | StUpgrade, StUpgrade | StTraffic, StTraffic | StMetrics, StMetrics | StPaused, StPaused
  | StReady, StReady | StCompleted, StCompleted | StOther, StOther => true | _, _ => false end.
Definition ftask_eqb (a b : ftask) : bool :=
  match a, b with FtNone, FtNone | FtRestoreStable, FtRestoreStable | FtRouteStable, FtRouteStable | FtRemoveCanarySvc, FtRemoveCanarySvc
  | FtResume, FtResume | FtRelease, FtRelease | FtEnd, FtEnd | FtOther, FtOther => true | _, _ => false end.

Record step := { sp_replicas : ios; sp_pause : option Z }.
Record ro_spec := {
  rs_steps : list step; rs_paused : bool; rs_disabled : bool; rs_deleting : bool; rs_finalizer : bool;
  rs_generation : Z; rs_hash : string; rs_rollback_in_batch : bool; rs_ft : option ios
}.
Record sub := {
  su_obs_wl_gen : Z; su_obs_rid : string; su_hash : string; su_stable : string; su_pth : string;
  su_idx : Z; su_next : Z; su_state : sstate; su_fin : ftask;
  su_elapsed : bool;            (* lastUpdateTime lies far enough in the past for any configured wait *)
  su_canary_rev : string; su_creplicas : Z; su_cready : Z
}.
Record ro_status := {
  rp_phase : rphase; rp_obs_gen : Z;
  rp_prog : option (preason * bool (* status True *) * bool (* lastUpdateTime elapsed *));
  rp_term : option bool;        (* Terminating condition: Some true = reason Completed *)
  rp_succ : option bool;        (* Succeeded condition status *)
  rp_sub : option sub
}.
Record wl := {
  wl_exists : bool; wl_consistent : bool; wl_stable : string; wl_canary : string; wl_pth : string;
  wl_replicas : Z; wl_gen : Z; wl_in_progress : bool; wl_in_rollback : bool; wl_rid_label : string; wl_typed : bool
}.
(* the BatchRelease named after the Rollout, as far as the Rollout controller reads or writes it *)
Record brel := {
  br_batches : list ios; br_rid : string; br_partition : option Z; br_ft : option ios; br_rollback_anno : bool;
  br_policy : string; br_consistent : bool (* plan hash and generation observed *);
  br_state_ready : bool; br_batch : Z; br_completed : bool; br_deleting : bool; br_updated : Z; br_updated_ready : Z
}.

(* util.NextBatchIndex *)
Definition next_index (nsteps cur : Z) : Z := if nsteps <=? cur then -1 else cur + 1.
Definition rollout_id (w : wl) : string :=
  if sempty (wl_rid_label w) then (if wl_in_rollback w then ("rollback-" ++ wl_canary w)%string else wl_canary w) else wl_rid_label w.

(* nextCanaryTask — the order is the property of C04/C10 and is re-derived from the source by the translator
   (gen/TaskTables.v); this copy is the one the reconcile model runs and is checked against it *)
Definition canary_tasks (r : freason) : list ftask :=
  match r with
  | FrRollback => [FtRouteStable; FtResume; FtRelease; FtRestoreStable; FtRemoveCanarySvc]
  | _ => [FtRestoreStable; FtRouteStable; FtRemoveCanarySvc; FtResume; FtRelease]
  end.
Fixpoint next_in (cur : ftask) (l : list ftask) : ftask :=
  match l with
  | a :: ((b :: _) as rest) => if ftask_eqb cur a then b else next_in cur rest
  | _ => FtEnd
  end.
Definition next_task (r : freason) (cur : ftask) : ftask :=
  match cur with FtNone => hd FtEnd (canary_tasks r) | _ => next_in cur (canary_tasks r) end.

(* what createBatchRelease builds *)
Definition desired_br (sp : ro_spec) (rid : string) (batch : Z) (rollback : bool) (old : option brel) : brel :=
  let o := match old with Some b => b
           | None => {| br_batches := []; br_rid := ""; br_partition := None; br_ft := None; br_rollback_anno := false; br_policy := "";
                        br_consistent := false; br_state_ready := false; br_batch := 0; br_completed := false; br_deleting := false;
                        br_updated := 0; br_updated_ready := 0 |} end in
  {| br_batches := map sp_replicas (rs_steps sp); br_rid := rid; br_partition := Some batch; br_ft := rs_ft sp;
     br_rollback_anno := rollback && rs_rollback_in_batch sp; br_policy := "";
     br_consistent := br_consistent o; br_state_ready := br_state_ready o; br_batch := br_batch o; br_completed := br_completed o;
     br_deleting := br_deleting o; br_updated := br_updated o; br_updated_ready := br_updated_ready o |}.
Definition br_spec_eqb (a b : brel) : bool :=
  list_eqb ios_eqb (br_batches a) (br_batches b) && String.eqb (br_rid a) (br_rid b) && opt_eqb Z.eqb (br_partition a) (br_partition b) &&
  opt_eqb ios_eqb (br_ft a) (br_ft b) && Bool.eqb (br_rollback_anno a) (br_rollback_anno b) && String.eqb (br_policy a) (br_policy b).

(* ---------- results ---------- *)
(* the BatchRelease after the reconcile's writes (None = absent; a deleted one stays, marked deleting, while its finalizer is held) *)
Definition brw := option brel.
Definition BrKeep (br : option brel) : brw := br.
Definition mark_deleting (b : brel) : brel :=
  {| br_batches := br_batches b; br_rid := br_rid b; br_partition := br_partition b; br_ft := br_ft b; br_rollback_anno := br_rollback_anno b;
     br_policy := br_policy b; br_consistent := br_consistent b; br_state_ready := br_state_ready b; br_batch := br_batch b;
     br_completed := br_completed b; br_deleting := true; br_updated := br_updated b; br_updated_ready := br_updated_ready b |}.
Record ro_out := {
  o_status : option ro_status;      (* None: the status is not written in this reconcile *)
  o_br : brw;
  o_remove_progress_anno : bool;    (* the in-progressing annotation is removed from the workload *)
  o_finalizer : bool;
  o_requeue : bool;
  o_err : bool
}.
Inductive ro_res := RPanic | ROut (o : ro_out).

Definition set_sub (s : ro_status) (u : option sub) : ro_status :=
  {| rp_phase := rp_phase s; rp_obs_gen := rp_obs_gen s; rp_prog := rp_prog s; rp_term := rp_term s; rp_succ := rp_succ s; rp_sub := u |}.
Definition set_prog (s : ro_status) (r : preason) (st : bool) : ro_status :=
  {| rp_phase := rp_phase s; rp_obs_gen := rp_obs_gen s;
     (* progressingStateTransition edits the existing condition in place and keeps its lastUpdateTime; only a new condition is stamped now *)
     rp_prog := Some (r, st, match rp_prog s with Some (_, _, el) => el | None => false end);
     rp_term := rp_term s; rp_succ := rp_succ s; rp_sub := rp_sub s |}.
Definition set_rphase (s : ro_status) (p : rphase) : ro_status :=
  {| rp_phase := p; rp_obs_gen := rp_obs_gen s; rp_prog := rp_prog s; rp_term := rp_term s; rp_succ := rp_succ s; rp_sub := rp_sub s |}.
Definition set_succ (s : ro_status) (v : option bool) : ro_status :=
  {| rp_phase := rp_phase s; rp_obs_gen := rp_obs_gen s; rp_prog := rp_prog s; rp_term := rp_term s; rp_succ := v; rp_sub := rp_sub s |}.
Definition set_term (s : ro_status) (v : option bool) : ro_status :=
  {| rp_phase := rp_phase s; rp_obs_gen := rp_obs_gen s; rp_prog := rp_prog s; rp_term := v; rp_succ := rp_succ s; rp_sub := rp_sub s |}.

Definition upd_sub (u : sub) (idx nxt : Z) (st : sstate) (fin : ftask) (el : bool) : sub :=
  {| su_obs_wl_gen := su_obs_wl_gen u; su_obs_rid := su_obs_rid u; su_hash := su_hash u; su_stable := su_stable u; su_pth := su_pth u;
     su_idx := idx; su_next := nxt; su_state := st; su_fin := fin; su_elapsed := el; su_canary_rev := su_canary_rev u;
     su_creplicas := su_creplicas u; su_cready := su_cready u |}.
Definition upd_sub_meta (u : sub) (hash pth crev : string) : sub :=
  {| su_obs_wl_gen := su_obs_wl_gen u; su_obs_rid := su_obs_rid u; su_hash := hash; su_stable := su_stable u; su_pth := pth;
     su_idx := su_idx u; su_next := su_next u; su_state := su_state u; su_fin := su_fin u; su_elapsed := su_elapsed u; su_canary_rev := crev;
     su_creplicas := su_creplicas u; su_cready := su_cready u |}.
Definition upd_sub_obs (u : sub) (gen : Z) (rid : string) (cr cready : Z) : sub :=
  {| su_obs_wl_gen := gen; su_obs_rid := rid; su_hash := su_hash u; su_stable := su_stable u; su_pth := su_pth u;
     su_idx := su_idx u; su_next := su_next u; su_state := su_state u; su_fin := su_fin u; su_elapsed := su_elapsed u; su_canary_rev := su_canary_rev u;
     su_creplicas := cr; su_cready := cready |}.

Definition nsteps (sp : ro_spec) : Z := zlen (rs_steps sp).

(* ---------- calculateRolloutStatus ---------- *)
Inductive calc := CalcRetry | CalcStatus (s : ro_status).
Definition calc_status (sp : ro_spec) (st : ro_status) (w : wl) : calc :=
  let s := {| rp_phase := rp_phase st; rp_obs_gen := rs_generation sp; rp_prog := rp_prog st; rp_term := rp_term st; rp_succ := rp_succ st; rp_sub := rp_sub st |} in
  if rs_deleting sp then
    CalcStatus (if rphase_eqb (rp_phase s) RpTerminating then s else set_term (set_rphase s RpTerminating) (Some false))
  else
  let s := if rs_disabled sp && negb (rphase_eqb (rp_phase s) RpDisabled) && negb (rphase_eqb (rp_phase s) RpDisabling)
           then set_rphase s (if rphase_eqb (rp_phase s) RpProgressing then RpDisabling else RpDisabled) else s in
  let s := if rphase_eqb (rp_phase s) RpEmpty then set_rphase s RpInitial else s in
  if negb (wl_exists w) then
    CalcStatus (if rs_disabled sp then s
                else {| rp_phase := RpInitial; rp_obs_gen := rs_generation sp; rp_prog := None; rp_term := None; rp_succ := None; rp_sub := None |})
  else if negb (wl_consistent w) then CalcRetry
  else
  let s := match rp_sub s with
           | Some u => if negb (sempty (su_canary_rev u)) && String.eqb (su_canary_rev u) (wl_canary w)
                       then set_sub s (Some (upd_sub_obs u (wl_gen w) (rollout_id w) (su_creplicas u) (su_cready u))) else s
           | None => s end in
  CalcStatus
  match rp_phase s with
  | RpInitial => set_rphase s RpHealthy
  | RpHealthy =>
    if wl_in_progress w then
      (* a freshly built condition replaces any old one *)
      let s' := set_rphase s RpProgressing in
      set_succ {| rp_phase := rp_phase s'; rp_obs_gen := rp_obs_gen s'; rp_prog := Some (PrInitializing, true, false); rp_term := rp_term s';
                  rp_succ := rp_succ s'; rp_sub := rp_sub s' |} None
    else match rp_sub s with
         | Some _ => s
         | None => set_sub s (Some {| su_obs_wl_gen := wl_gen w; su_obs_rid := rollout_id w; su_hash := rs_hash sp; su_stable := wl_stable w;
                                      su_pth := wl_pth w; su_idx := nsteps sp; su_next := next_index (nsteps sp) (nsteps sp); su_state := StCompleted;
                                      su_fin := FtNone; su_elapsed := true; su_canary_rev := wl_canary w; su_creplicas := 0; su_cready := 0 |})
         end
  | RpDisabled => if rs_disabled sp then s else set_rphase s RpHealthy
  | _ => s
  end.

(* ---------- finalising (doFinalising / doCanaryFinalising without traffic routing) ---------- *)
(* the four BatchRelease-related / traffic tasks; with no traffic routing the three traffic tasks are immediate *)
Definition finalise (sp : ro_spec) (u : sub) (w : wl) (br : option brel) (r : freason) (wait_ready : bool)
  : bool (* done *) * sub * brw :=
  if ftask_eqb (su_fin u) FtEnd then (true, u, br) else
  let nxt := next_task r (su_fin u) in
  let u1 := match su_fin u with FtNone => upd_sub u (su_idx u) (su_next u) (su_state u) nxt false | _ => u end in
  let run (retry : bool) (wr : brw) :=
      if retry then (false, u1, wr)
      else let u2 := upd_sub u1 (su_idx u1) (su_next u1) (su_state u1) nxt false in (ftask_eqb nxt FtEnd, u2, wr) in
  match su_fin u1 with
  | FtResume =>                      (* finalizingBatchRelease *)
    match br with
    | None => run false br
    | Some b =>
      if match br_partition b with None => br_completed b | Some _ => false end then run false br
      else if match br_partition b with None => Bool.eqb (String.eqb (br_policy b) "WaitResume") wait_ready | Some _ => false end then run true br
      else run true (Some {| br_batches := br_batches b; br_rid := br_rid b; br_partition := None; br_ft := br_ft b; br_rollback_anno := br_rollback_anno b;
                             br_policy := if wait_ready then "WaitResume" else "Immediate"; br_consistent := br_consistent b;
                             br_state_ready := br_state_ready b; br_batch := br_batch b; br_completed := br_completed b; br_deleting := br_deleting b;
                             br_updated := br_updated b; br_updated_ready := br_updated_ready b |})
    end
  | FtRelease =>                     (* removeBatchRelease *)
    match br with
    | None => run false br
    | Some b => if br_deleting b then run true br else run true (Some (mark_deleting b))
    end
  | FtRouteStable | FtRestoreStable | FtRemoveCanarySvc => run false br
  | _ => (false, upd_sub u1 (su_idx u1) (su_next u1) (su_state u1) (next_task r FtNone) (su_elapsed u1), br)
  end.

(* ---------- runCanary ---------- *)
Definition get_step (sp : ro_spec) (idx : Z) : option step := znth (rs_steps sp) (idx - 1).

Inductive canary_out := CPanic | COut (u : sub) (wr : brw) (requeue : bool).

Definition do_jump (sp : ro_spec) (u : sub) : option (option sub) :=   (* None: panic; Some None: no jump *)
  match get_step sp (su_idx u) with
  | None => None
  | Some cur =>
    if negb (su_next u =? next_index (nsteps sp) (su_idx u)) && (0 <? su_next u) then
      match get_step sp (su_next u) with
      | None => None
      | Some nx => Some (Some (upd_sub u (su_next u) (next_index (nsteps sp) (su_next u))
                                      (* the upgrade is skipped only between steps with the same replicas AND when the step jumped from is
                                         past its own upgrade (since the fix of F14) *)
                                      (if ios_eqb (sp_replicas nx) (sp_replicas cur) && negb (sstate_eqb (su_state u) StInit || sstate_eqb (su_state u) StUpgrade)
                                       then StTraffic else StInit) (su_fin u) false))
      end
    else Some None
  end.

Definition set_rid (b : brel) (rid : string) : brel :=
  (* the observed plan hash covers the whole release plan, rollout-id included: once the id is re-aligned the
     BatchRelease's status counts as not yet observed *)
  {| br_batches := br_batches b; br_rid := rid; br_partition := br_partition b; br_ft := br_ft b; br_rollback_anno := br_rollback_anno b;
     br_policy := br_policy b; br_consistent := false; br_state_ready := br_state_ready b; br_batch := br_batch b;
     br_completed := br_completed b; br_deleting := br_deleting b; br_updated := br_updated b; br_updated_ready := br_updated_ready b |}.

(* syncBatchRelease: copy the counters, re-align the BatchRelease's rollout-id with the observed one *)
Definition sync_br (u0 : sub) (br0 : option brel) : sub * option brel :=
  match br0 with
  | Some b => (upd_sub_obs u0 (su_obs_wl_gen u0) (su_obs_rid u0) (br_updated b) (br_updated_ready b),
               if String.eqb (su_obs_rid u0) (br_rid b) then br0 else Some (set_rid b (su_obs_rid u0)))
  | None => (u0, None) end.
Definition fill_pth (u : sub) (w : wl) : sub := if sempty (su_pth u) then upd_sub_meta u (su_hash u) (wl_pth w) (su_canary_rev u) else u.

(* doCanaryUpgrade / runBatchRelease *)
Definition canary_upgrade (sp : ro_spec) (u : sub) (w : wl) (br : option brel) (cur : step) : canary_out :=
  let want := desired_br sp (rollout_id w) (su_idx u - 1) (wl_in_rollback w) br in
  match br with
  | None => COut u (Some want) false
  | Some b =>
    if negb (br_spec_eqb b want) then COut u (Some want) false
    else if negb (br_consistent b) then COut u br false
    else if negb (br_state_ready b) || (br_batch b + 1 <? su_idx u) then COut u br false
    else let part100 := (wl_replicas w <=? scaled true (sp_replicas cur) (wl_replicas w)) in
         COut (upd_sub (upd_sub_meta u (su_hash u) (wl_pth w) (su_canary_rev u)) (su_idx u) (su_next u)
                       (if part100 then StMetrics else StTraffic) (su_fin u) false) br false
  end.

(* the sub-state switch of runCanary for a step without traffic configuration *)
Definition canary_step (sp : ro_spec) (u : sub) (w : wl) (br : option brel) (cur : step) : canary_out :=
  match su_state u with
  | StInit => COut (upd_sub u (su_idx u) (su_next u) StUpgrade (su_fin u) (su_elapsed u)) br false
  | StUpgrade => canary_upgrade sp u w br cur
  | StTraffic => COut (upd_sub u (su_idx u) (su_next u) StMetrics (su_fin u) false) br true
  | StMetrics => COut (upd_sub u (su_idx u) (su_next u) StPaused (su_fin u) (su_elapsed u)) br false
  | StPaused =>
    let last100 := (nsteps sp =? su_idx u) && ios_eqb (sp_replicas cur) (IPct 100) in
    if last100 then COut (upd_sub u (su_idx u) (su_next u) StReady (su_fin u) false) br false else
    match sp_pause cur with
    | None => COut u br false
    | Some d => if su_elapsed u || (d <=? 0)     (* lastUpdateTime + duration is already in the past *)
                then COut (upd_sub u (su_idx u) (su_next u) StReady (su_fin u) false) br false
                else COut u br true
    end
  | StReady =>
    if su_idx u <? nsteps sp then COut (upd_sub u (su_idx u + 1) (next_index (nsteps sp) (su_idx u + 1)) StInit (su_fin u) false) br false
    else COut (upd_sub u (su_idx u) (su_next u) StCompleted (su_fin u) false) br false
  | StCompleted | StOther => COut u br false
  end.

Definition run_canary (sp : ro_spec) (u0 : sub) (w : wl) (br0 : option brel) : canary_out :=
  let '(u1, br) := sync_br u0 br0 in
  let u := fill_pth u1 w in
  match do_jump sp u with
  | None => CPanic
  | Some (Some u') => COut u' br false
  | Some None =>
    match get_step sp (su_idx u) with
    | None => CPanic
    | Some cur => canary_step sp u w br cur
    end
  end.

(* ---------- reconcileRolloutProgressing ---------- *)
Definition fresh_sub (sp : ro_spec) (w : wl) : sub :=
  {| su_obs_wl_gen := wl_gen w; su_obs_rid := rollout_id w; su_hash := rs_hash sp; su_stable := wl_stable w; su_pth := "";
     su_idx := 1; su_next := next_index (nsteps sp) 1; su_state := StInit; su_fin := FtNone; su_elapsed := false;
     su_canary_rev := wl_canary w; su_creplicas := 0; su_cready := 0 |}.

Record prog_out := { po_status : ro_status; po_br : brw; po_anno : bool (* progressing annotation removed *); po_requeue : bool }.
Inductive prog_res := PPanic | PBadRequest | POk (o : prog_out).

Definition remove_br (br : option brel) : bool (* retry *) * brw :=
  match br with None => (false, None) | Some b => if br_deleting b then (true, br) else (true, Some (mark_deleting b)) end.

(* recalculateCanaryStep; None = panic (nil batchPartition / index out of range) *)
(* first index (in the given order) whose replicas cover the current ones; the last visited index otherwise *)
Fixpoint recalc_go (sp : ro_spec) (current replicas : Z) (l : list Z) (last : Z) : Z :=
  match l with
  | [] => last
  | i :: r => match znth (rs_steps sp) i with
              | Some stp => if current <=? scaled true (sp_replicas stp) replicas then i + 1 else recalc_go sp current replicas r (i + 1)
              | None => recalc_go sp current replicas r (i + 1) end
  end.
Definition recalc_order (sp : ro_spec) (ci : Z) : list Z :=
  (if (0 <=? ci) && (ci <? nsteps sp) then [ci] else []) ++ filter (fun i => negb (i =? ci)) (zseq 0 (Z.to_nat (nsteps sp))).
Definition recalc_step (sp : ro_spec) (u : sub) (w : wl) (br : option brel) : option Z :=
  match br with
  | None => Some 1
  | Some b =>
    match br_partition b with
    | None => None
    | Some p =>
      match znth (br_batches b) p with
      | None => None
      | Some cr => Some (recalc_go sp (scaled true cr (wl_replicas w)) (wl_replicas w) (recalc_order sp (su_idx u - 1)) 0)
      end
    end
  end.

Definition in_rolling (sp : ro_spec) (old : ro_status) (s : ro_status) (w : wl) (br : option brel) : prog_res :=
  match rp_sub old, rp_sub s with
  | Some ou, Some u =>
    let rev_differs := negb (String.eqb (wl_canary w) (su_canary_rev ou)) in
    if wl_in_rollback w && rev_differs && negb (rs_rollback_in_batch sp) then
      (* handleRollbackDirectly *)
      POk {| po_status := set_prog (set_sub s (Some (upd_sub_meta u (su_hash u) (su_pth u) (wl_canary w)))) PrCancelling true;
             po_br := br; po_anno := false; po_requeue := false |}
    else if rs_paused sp then POk {| po_status := set_prog s PrPaused true; po_br := br; po_anno := false; po_requeue := false |}
    else if wl_in_rollback w && rev_differs && rs_rollback_in_batch sp then
      (* handleRollbackInBatches *)
      POk {| po_status := set_sub s (Some (upd_sub (upd_sub_meta u (rs_hash sp) (su_pth u) (wl_canary w)) 1 (next_index (nsteps sp) 1) StInit (su_fin u) false));
             po_br := br; po_anno := false; po_requeue := false |}
    else if negb (sempty (su_canary_rev ou)) && rev_differs && negb (wl_in_rollback w) then
      (* handleContinuousRelease / doProgressingReset without traffic routing *)
      let '(retry, br') := remove_br br in
      if retry then POk {| po_status := s; po_br := br'; po_anno := false; po_requeue := true |}
      else POk {| po_status := set_prog (set_sub s None) PrInitializing true; po_br := br'; po_anno := false; po_requeue := false |}
    else if negb (sempty (su_hash ou)) && negb (String.eqb (su_hash ou) (rs_hash sp)) then
      (* handleRolloutPlanChanged *)
      match recalc_step sp u w br with
      | None => PPanic
      | Some ni =>
        if su_next u =? ni then
          POk {| po_status := set_sub s (Some (upd_sub (upd_sub_meta u (rs_hash sp) (su_pth u) (su_canary_rev u)) (su_idx u) (su_next u) StReady (su_fin u) false));
                 po_br := br; po_anno := false; po_requeue := false |}
        else
          let u1 := upd_sub (upd_sub_meta u (rs_hash sp) (su_pth u) (su_canary_rev u)) (su_idx u) ni (su_state u) (su_fin u) false in
          match do_jump sp u1 with
          | None => PPanic
          | Some (Some u2) => POk {| po_status := set_sub s (Some u2); po_br := br; po_anno := false; po_requeue := false |}
          | Some None => POk {| po_status := set_sub s (Some u1); po_br := br; po_anno := false; po_requeue := false |}
          end
      end
    else if sstate_eqb (su_state u) StCompleted then
      POk {| po_status := set_prog s PrFinalising true; po_br := br; po_anno := false; po_requeue := false |}
    else
      (* handleNormalRolling: CheckNextBatchIndexWithCorrect; since the fix of F5 the corrected nextStepIndex
         reaches the status the release manager works on *)
      let nx := match rp_sub old with
                | Some ou => if (su_next ou <=? 0) || (nsteps sp <? su_next ou) then next_index (nsteps sp) (su_idx ou) else su_next ou
                | None => su_next u end in
      let u := upd_sub u (su_idx u) nx (su_state u) (su_fin u) (su_elapsed u) in
      match run_canary sp u w br with
      | CPanic => PPanic
      | COut u' br' rq => POk {| po_status := set_sub s (Some u'); po_br := br'; po_anno := false; po_requeue := rq |}
      end
  | _, _ => PPanic                    (* GetSubStatus()/GetCanaryRevision() dereference a nil sub-status *)
  end.

Definition do_finalising (sp : ro_spec) (s : ro_status) (w : wl) (br : option brel) (r : freason) (wait_ready : bool)
  : bool * ro_status * brw * bool (* annotation removed *) :=
  match rp_sub s with
  | None => (true, s, br, false)
  | Some u => let '(done, u', br') := finalise sp u w br r wait_ready in
              (done, set_sub s (Some u'), br', wl_exists w && wl_consistent w && wl_in_progress w)   (* an inconsistent workload is seen without annotations *)
  end.

Definition progressing (sp : ro_spec) (old : ro_status) (s : ro_status) (w : wl) (br : option brel) : prog_res :=
  match rp_prog old with
  | None => PPanic
  | Some (reason, _, cond_elapsed) =>
    if negb (wl_exists w) || negb (wl_consistent w) then POk {| po_status := s; po_br := br; po_anno := false; po_requeue := false |} else
    match reason with
    | PrInitializing =>
      let s1 := set_sub s (Some (fresh_sub sp w)) in
      (* the grace wait is measured on the Progressing condition of the new status *)
      let el := match rp_prog s1 with Some (_, _, e) => e | None => false end in
      if el then POk {| po_status := set_prog s1 PrInRolling true; po_br := br; po_anno := false; po_requeue := false |}
      else POk {| po_status := s1; po_br := br; po_anno := false; po_requeue := true |}
    | PrInRolling => in_rolling sp old s w br
    | PrFinalising =>
      let '(done, s1, br', anno) := do_finalising sp s w br FrSuccess true in
      if done then POk {| po_status := set_succ (set_prog s1 PrCompleted false) (Some true); po_br := br'; po_anno := anno; po_requeue := false |}
      else POk {| po_status := s1; po_br := br'; po_anno := anno; po_requeue := true |}
    | PrPaused => POk {| po_status := if rs_paused sp then s else set_prog s PrInRolling true; po_br := br; po_anno := false; po_requeue := false |}
    | PrCancelling =>
      let '(done, s1, br', anno) := do_finalising sp s w br FrRollback false in
      if done then POk {| po_status := set_succ (set_prog s1 PrCompleted false) (Some false); po_br := br'; po_anno := anno; po_requeue := false |}
      else POk {| po_status := s1; po_br := br'; po_anno := anno; po_requeue := true |}
    | PrCompleted => POk {| po_status := set_rphase s RpHealthy; po_br := br; po_anno := false; po_requeue := false |}
    | PrOther => POk {| po_status := s; po_br := br; po_anno := false; po_requeue := false |}
    end
  end.

(* ---------- Reconcile ---------- *)
Definition reconcile (sp : ro_spec) (st : ro_status) (w : wl) (br : option brel) : ro_res :=
  (* handleFinalizer *)
  let fin := if rs_deleting sp then (if match rp_term st with Some true => true | _ => false end then false else rs_finalizer sp) else true in
  match calc_status sp st w with
  | CalcRetry => ROut {| o_status := None; o_br := br; o_remove_progress_anno := false; o_finalizer := fin; o_requeue := true; o_err := false |}
  | CalcStatus s =>
    match rp_phase st with
    | RpProgressing =>
      match progressing sp st s w br with
      | PPanic => RPanic
      | PBadRequest => ROut {| o_status := None; o_br := br; o_remove_progress_anno := false; o_finalizer := fin; o_requeue := false; o_err := false |}
      | POk o => ROut {| o_status := Some (po_status o); o_br := po_br o; o_remove_progress_anno := po_anno o; o_finalizer := fin;
                         o_requeue := po_requeue o; o_err := false |}
      end
    | RpTerminating =>
      match rp_term st with
      | None => RPanic
      | Some true => ROut {| o_status := Some s; o_br := br; o_remove_progress_anno := false; o_finalizer := fin; o_requeue := false; o_err := false |}
      | Some false =>
        (* an inconsistent workload status makes the reconcile wait (the finder would hand out an empty workload) *)
        if wl_exists w && negb (wl_consistent w)
        then ROut {| o_status := Some s; o_br := br; o_remove_progress_anno := false; o_finalizer := fin; o_requeue := true; o_err := false |} else
        let '(done, s1, br', anno) := do_finalising sp s w br FrDelete false in
        ROut {| o_status := Some (if done then set_term s1 (Some true) else s1); o_br := br'; o_remove_progress_anno := anno; o_finalizer := fin;
                o_requeue := negb done; o_err := false |}
      end
    | RpDisabling =>
      (* reached with an inconsistent workload only by a Rollout deleted while Disabling (calc_status checks it otherwise) *)
      if wl_exists w && negb (wl_consistent w)
      then ROut {| o_status := Some s; o_br := br; o_remove_progress_anno := false; o_finalizer := fin; o_requeue := true; o_err := false |} else
      let '(done, s1, br', anno) := do_finalising sp s w br FrDisabled false in
      ROut {| o_status := Some (if done then set_rphase s1 RpDisabled else s1); o_br := br'; o_remove_progress_anno := anno; o_finalizer := fin;
              o_requeue := negb done; o_err := false |}
    | _ => ROut {| o_status := Some s; o_br := br; o_remove_progress_anno := false; o_finalizer := fin; o_requeue := false; o_err := false |}
    end
  end.
