(* Model of the process-wide grace expectations shared by all Rollouts (pkg/util/grace/grace_expectations.go and
   grace_wrapper.go:RunWithGraceSeconds), keyed by (controller key, action) as the callers in pkg/trafficrouting/manager.go
   derive them: the Rollout's UID, the stable Service's UID, or namespace/name of the canary Service. *)
From RV Require Import Base.Util.

Definition gkey := (string * string)%type.          (* controller key, action *)
Definition gkey_eqb (a b : gkey) : bool := String.eqb (fst a) (fst b) && String.eqb (snd a) (snd b).
(* an expectation: has its grace period elapsed *)
Definition gstore := list (gkey * bool).

Definition gs_lookup (k : gkey) (s : gstore) : option bool :=
  match find (fun p => gkey_eqb (fst p) k) s with Some p => Some (snd p) | None => None end.
Definition gs_remove (k : gkey) (s : gstore) : gstore := filter (fun p => negb (gkey_eqb (fst p) k)) s.
Definition gs_expect (k : gkey) (s : gstore) : gstore := (k, false) :: gs_remove k s.
Definition gs_tick (s : gstore) : gstore := map (fun p => (fst p, true)) s.

(* one call of RunWithGraceSeconds whose closure reported (modified, failed) *)
Record gcall := { gc_key : gkey; gc_zero_grace : bool; gc_modified : bool; gc_failed : bool }.
Definition run_call (c : gcall) (s : gstore) : bool (* retry *) * gstore :=
  if gc_failed c then (true, s) else
  if gc_zero_grace c then (false, gs_remove (gc_key c) s) else
  if gc_modified c then (true, gs_expect (gc_key c) s) else
  match gs_lookup (gc_key c) s with
  | Some false => (true, s)
  | _ => (false, gs_remove (gc_key c) s)
  end.

Inductive gop := GCall (c : gcall) | GTick | GRestart.
Definition gstep (s : gstore) (o : gop) : gstore * option bool :=
  match o with
  | GCall c => let '(r, s') := run_call c s in (s', Some r)
  | GTick => (gs_tick s, None)
  | GRestart => ([], None)
  end.
Fixpoint grun (s : gstore) (ops : list gop) : list (option bool) :=
  match ops with [] => [] | o :: t => let '(s', r) := gstep s o in r :: grun s' t end.
