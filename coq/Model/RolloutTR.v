(* One Rollout reconcile WITH traffic routing: the canary-strategy model of Model/RolloutSM.v (status calculation,
   progressing dispatch, BatchRelease handling) extended by the calls into the traffic routing manager
   (Model/TrafficMgr.v) made by runCanary, doCanaryFinalising, doProgressingReset and doProgressingInitializing.
   The result lists the network writes in order. *)
From RV Require Import Base.Util Base.IntStr Model.RolloutSM Model.TrafficMgr.

Record tr_spec := {
  ts_sp : ro_spec;
  ts_strategies : list strategy;          (* traffic configuration of each step, aligned with rs_steps *)
  ts_refs : bool;                          (* spec.strategy.canary.trafficRoutings is not empty *)
  ts_zero_grace : bool;
  ts_gateway_fails : bool                  (* fault injection: every read of the gateway object fails in this reconcile *)
}.

Definition no_traffic : strategy := {| st_weight := None; st_match := None |}.
(* newTrafficRoutingContext: the current step's strategy, or the first step's when the index is out of range *)
Definition tr_strategy (t : tr_spec) (idx : Z) : strategy :=
  match znth (ts_strategies t) (idx - 1) with Some s => s | None => hd no_traffic (ts_strategies t) end.
Definition mk_ctx (t : tr_spec) (u : sub) : tctx :=
  {| tc_refs := ts_refs t; tc_zero_grace := ts_zero_grace t; tc_strategy := tr_strategy t (su_idx u);
     tc_stable_rev := su_stable u; tc_canary_rev := su_pth u; tc_last_update := Some (su_elapsed u); tc_key := true; tc_gateway_fails := ts_gateway_fails t; tc_only_traffic := false |}.
(* finalising may run without a workload: the revision label key is then unknown *)
Definition mk_ctx_w (t : tr_spec) (u : sub) (w : wl) : tctx :=
  {| tc_refs := ts_refs t; tc_zero_grace := ts_zero_grace t; tc_strategy := tr_strategy t (su_idx u);
     tc_stable_rev := su_stable u; tc_canary_rev := su_pth u; tc_last_update := Some (su_elapsed u); tc_key := wl_exists w; tc_gateway_fails := ts_gateway_fails t; tc_only_traffic := false |}.

Definition touch (u : sub) (r : tres) : sub :=
  if tr_touched r then upd_sub u (su_idx u) (su_next u) (su_state u) (su_fin u) false else u.
Definition set_state (u : sub) (st : sstate) (el : bool) : sub := upd_sub u (su_idx u) (su_next u) st (su_fin u) el.

(* result of the release manager's part: status sub-state, BatchRelease, requeue, network writes, expectations, error *)
Record cout := { co_sub : sub; co_br : brw; co_requeue : bool; co_writes : list write; co_graces : graces; co_err : bool }.
Inductive cres := CrPanic | CrOut (o : cout).
Definition cr u br rq ws g err := CrOut {| co_sub := u; co_br := br; co_requeue := rq; co_writes := ws; co_graces := g; co_err := err |}.

Definition full_step (w : wl) (cur : step) : bool := wl_replicas w <=? scaled true (sp_replicas cur) (wl_replicas w).

Definition of_canary_out (o : canary_out) (ws : list write) (g : graces) : cres :=
  match o with CPanic => CrPanic | COut u br rq => cr u br rq ws g false end.

(* the sub-state switch of runCanary *)
Definition canary_step_tr (t : tr_spec) (u : sub) (w : wl) (br : option brel) (cur : step) (n : net) (g : graces) (ws0 : list write) : cres :=
  let sp := ts_sp t in
  let s := tr_strategy t (su_idx u) in
  match su_state u with
  | StInit =>
    if strategy_empty s then cr (set_state u StUpgrade (su_elapsed u)) br false ws0 g false else
    (* ingress-nginx 9635 bypass: un-pin the stable Service before a step that replaces every stable pod *)
    let a := if full_step w cur then restore_stable_service (mk_ctx t u) n g else tdone true g in
    if tr_err a then cr u br false (ws0 ++ tr_writes a) (tr_graces a) true else
    if negb (tr_ok a) then cr u br true (ws0 ++ tr_writes a) (tr_graces a) false else
    let n1 := apply_writes n (tr_writes a) in
    (* pin the stable Service before the first step creates new pods *)
    let b := if su_idx u =? 1 then patch_stable_service (mk_ctx t u) n1 (tr_graces a) else tdone true (tr_graces a) in
    let ws := ws0 ++ tr_writes a ++ tr_writes b in
    if tr_err b then cr u br false ws (tr_graces b) true else
    if negb (tr_ok b) then cr u br true ws (tr_graces b) false else
    of_canary_out (canary_upgrade sp (set_state u StUpgrade false) w br cur) ws (tr_graces b)
  | StUpgrade => of_canary_out (canary_upgrade sp u w br cur) ws0 g
  | StTraffic =>
    let r := do_traffic_routing (mk_ctx t u) n g in
    let u1 := touch u r in
    if tr_err r then cr u1 br false (ws0 ++ tr_writes r) (tr_graces r) true else
    cr (if tr_ok r then set_state u1 StMetrics false else u1) br true (ws0 ++ tr_writes r) (tr_graces r) false
  | _ => of_canary_out (canary_step sp u w br cur) ws0 g
  end.

Definition run_canary_tr (t : tr_spec) (u0 : sub) (w : wl) (br0 : option brel) (n : net) (g : graces) : cres :=
  let sp := ts_sp t in
  let '(u1, br) := sync_br u0 br0 in
  let u := fill_pth u1 w in
  match do_jump sp u with
  | None => CrPanic
  | Some (Some u') => cr u' br false [] g false
  | Some None =>
    match get_step sp (su_idx u) with
    | None => CrPanic
    | Some cur =>
      if strategy_empty (tr_strategy t (su_idx u)) then
        (* a step without traffic configuration first cleans up what an earlier step configured *)
        let r := finalising_traffic_routing (mk_ctx t u) n g in
        let u' := touch u r in
        if tr_err r then cr u' br false (tr_writes r) (tr_graces r) true else
        if negb (tr_ok r) then cr u' br true (tr_writes r) (tr_graces r) false else
        canary_step_tr t u' w br cur (apply_writes n (tr_writes r)) (tr_graces r) (tr_writes r)
      else canary_step_tr t u w br cur n g []
    end
  end.

(* doCanaryFinalising *)
Definition finalise_tr (t : tr_spec) (u : sub) (w : wl) (br : option brel) (r : freason) (wait_ready : bool) (n : net) (g : graces)
  : bool (* done *) * cout :=
  let mk u br ws g err := {| co_sub := u; co_br := br; co_requeue := false; co_writes := ws; co_graces := g; co_err := err |} in
  if ftask_eqb (su_fin u) FtEnd then (true, mk u br [] g false) else
  let nxt := next_task r (su_fin u) in
  let u1 := match su_fin u with FtNone => upd_sub u (su_idx u) (su_next u) (su_state u) nxt false | _ => u end in
  let traffic (x : tres) :=
      if tr_err x then (false, mk u1 br (tr_writes x) (tr_graces x) true)
      else if negb (tr_ok x) then (false, mk u1 br (tr_writes x) (tr_graces x) false)
      else let u2 := upd_sub u1 (su_idx u1) (su_next u1) (su_state u1) nxt false in
           (ftask_eqb nxt FtEnd, mk u2 br (tr_writes x) (tr_graces x) false) in
  match su_fin u1 with
  | FtRouteStable => traffic (restore_gateway (mk_ctx t u1) n g)
  | FtRestoreStable => traffic (restore_stable_service (mk_ctx_w t u1 w) n g)
  | FtRemoveCanarySvc => traffic (remove_canary_service (mk_ctx t u1) n g)
  | _ => let '(done, u', br') := finalise (ts_sp t) u w br r wait_ready in (done, mk u' br' [] g false)
  end.

(* doProgressingReset with traffic routing: gateway, BatchRelease, canary Service.  (done, sub, br, writes, graces, err) *)
Definition reset_tr (t : tr_spec) (u : sub) (br : option brel) (n : net) (g : graces) : bool * cout :=
  let mk u br ws g err := {| co_sub := u; co_br := br; co_requeue := false; co_writes := ws; co_graces := g; co_err := err |} in
  let with_fin (u : sub) f el := upd_sub u (su_idx u) (su_next u) (su_state u) f el in
  let stage3 (u : sub) (br : brw) (ws : list write) (g : graces) :=
      let x := remove_canary_service (mk_ctx t u) (apply_writes n ws) g in
      if tr_err x then (false, mk (touch u x) br (ws ++ tr_writes x) (tr_graces x) true) else (true, mk u br (ws ++ tr_writes x) (tr_graces x) false) in
  let stage2 (u : sub) (ws : list write) (g : graces) :=
      let '(retry, br') := remove_br br in
      if retry then (false, mk u br' ws g false) else stage3 (with_fin u FtRemoveCanarySvc false) br' ws g in
  let stage1 (u : sub) :=
      let x := restore_gateway (mk_ctx t u) n g in
      if tr_err x || negb (tr_ok x) then (false, mk (touch u x) br (tr_writes x) (tr_graces x) (tr_err x))
      else stage2 (with_fin u FtRelease false) (tr_writes x) (tr_graces x) in
  match su_fin u with
  | FtRouteStable => stage1 u
  | FtRelease => stage2 u [] g
  | FtRemoveCanarySvc => stage3 u br [] g
  | _ => stage1 (with_fin u FtRouteStable (su_elapsed u))
  end.

Record tprog := { tp_status : ro_status; tp_br : brw; tp_anno : bool; tp_requeue : bool; tp_writes : list write; tp_graces : graces; tp_err : bool }.
Inductive tprog_res := TpPanic | TpOk (o : tprog).
Definition tp s br anno rq ws g err := TpOk {| tp_status := s; tp_br := br; tp_anno := anno; tp_requeue := rq; tp_writes := ws; tp_graces := g; tp_err := err |}.
Definition of_prog (r : prog_res) (s0 : ro_status) (br0 : option brel) (g : graces) : tprog_res :=
  match r with
  | PPanic => TpPanic
  | PBadRequest => tp s0 br0 false false [] g true
  | POk o => tp (po_status o) (po_br o) (po_anno o) (po_requeue o) [] g false
  end.

(* util.IsRollbackInBatchPolicy: rollback in batches is not supported together with traffic routing *)
Definition policy_sp (t : tr_spec) : ro_spec :=
  let sp := ts_sp t in
  {| rs_steps := rs_steps sp; rs_paused := rs_paused sp; rs_disabled := rs_disabled sp; rs_deleting := rs_deleting sp; rs_finalizer := rs_finalizer sp;
     rs_generation := rs_generation sp; rs_hash := rs_hash sp; rs_rollback_in_batch := rs_rollback_in_batch sp && negb (ts_refs t); rs_ft := rs_ft sp |}.

Definition in_rolling_tr (t : tr_spec) (old s : ro_status) (w : wl) (br : option brel) (n : net) (g : graces) : tprog_res :=
  let sp := policy_sp t in
  match rp_sub old, rp_sub s with
  | Some ou, Some u =>
    let rev_differs := negb (String.eqb (wl_canary w) (su_canary_rev ou)) in
    let direct_rollback := wl_in_rollback w && rev_differs && negb (rs_rollback_in_batch sp) in
    let batch_rollback := wl_in_rollback w && rev_differs && rs_rollback_in_batch sp in
    let continuous := negb (sempty (su_canary_rev ou)) && rev_differs && negb (wl_in_rollback w) in
    let plan_changed := negb (sempty (su_hash ou)) && negb (String.eqb (su_hash ou) (rs_hash sp)) in
    if direct_rollback || rs_paused sp || batch_rollback then of_prog (in_rolling sp old s w br) s br g
    else if continuous then
      if negb (ts_refs t) then of_prog (in_rolling sp old s w br) s br g else
      let '(done, o) := reset_tr t u br n g in
      if co_err o then tp s (co_br o) false false (co_writes o) (co_graces o) true
      else if done then tp (set_prog (set_sub s None) PrInitializing true) (co_br o) false false (co_writes o) (co_graces o) false
      else tp (set_sub s (Some (co_sub o))) (co_br o) false true (co_writes o) (co_graces o) false
    else if plan_changed || sstate_eqb (su_state u) StCompleted then of_prog (in_rolling sp old s w br) s br g
    else
      let nx := if (su_next ou <=? 0) || (nsteps sp <? su_next ou) then next_index (nsteps sp) (su_idx ou) else su_next ou in
      let u := upd_sub u (su_idx u) nx (su_state u) (su_fin u) (su_elapsed u) in
      match run_canary_tr t u w br n g with
      | CrPanic => TpPanic
      | CrOut o => (* the rollout-id patch of syncBatchRelease is already written when a later call fails *)
                   if co_err o then tp s (co_br o) false false (co_writes o) (co_graces o) true
                   else tp (set_sub s (Some (co_sub o))) (co_br o) false (co_requeue o) (co_writes o) (co_graces o) false
      end
  | _, _ => TpPanic
  end.

Definition do_finalising_tr (t : tr_spec) (s : ro_status) (w : wl) (br : option brel) (r : freason) (wait_ready : bool) (n : net) (g : graces)
  : bool * ro_status * brw * bool * list write * graces * bool :=
  match rp_sub s with
  | None => (true, s, br, false, [], g, false)
  | Some u => let '(done, o) := finalise_tr t u w br r wait_ready n g in
              (done, set_sub s (Some (co_sub o)), co_br o, wl_exists w && wl_consistent w && wl_in_progress w, co_writes o, co_graces o, co_err o)
  end.

Definition progressing_tr (t : tr_spec) (old s : ro_status) (w : wl) (br : option brel) (n : net) (g : graces) : tprog_res :=
  let sp := ts_sp t in
  match rp_prog old with
  | None => TpPanic
  | Some (reason, _, _) =>
    if negb (wl_exists w) || negb (wl_consistent w) then tp s br false false [] g false else
    match reason with
    | PrInitializing =>
      (* InitializeTrafficRouting: the stable Service must exist and the gateway object must be readable *)
      if ts_refs t && (negb (n_stable_exists n) || ts_gateway_fails t) then tp s br false false [] g true
      else of_prog (progressing sp old s w br) s br g
    | PrInRolling => in_rolling_tr t old s w br n g
    | PrFinalising =>
      let '(done, s1, br', anno, ws, g', err) := do_finalising_tr t s w br FrSuccess true n g in
      if err then tp s br anno false ws g' true
      else if done then tp (set_succ (set_prog s1 PrCompleted false) (Some true)) br' anno false ws g' false
      else tp s1 br' anno true ws g' false
    | PrCancelling =>
      let '(done, s1, br', anno, ws, g', err) := do_finalising_tr t s w br FrRollback false n g in
      if err then tp s br anno false ws g' true
      else if done then tp (set_succ (set_prog s1 PrCompleted false) (Some false)) br' anno false ws g' false
      else tp s1 br' anno true ws g' false
    | _ => of_prog (progressing sp old s w br) s br g
    end
  end.

Record tr_out := { t_out : ro_out; t_writes : list write; t_graces : graces }.
Inductive tr_res := TrPanic | TrOut (o : tr_out).

Definition reconcile_tr (t : tr_spec) (st : ro_status) (w : wl) (br : option brel) (n : net) (g : graces) : tr_res :=
  let sp := ts_sp t in
  let fin := if rs_deleting sp then (if match rp_term st with Some true => true | _ => false end then false else rs_finalizer sp) else true in
  let plain (r : ro_res) := match r with RPanic => TrPanic | ROut o => TrOut {| t_out := o; t_writes := []; t_graces := g |} end in
  match calc_status sp st w with
  | CalcRetry => plain (reconcile sp st w br)
  | CalcStatus s =>
    let out status br anno rq err ws g' :=
        TrOut {| t_out := {| o_status := status; o_br := br; o_remove_progress_anno := anno; o_finalizer := fin; o_requeue := rq; o_err := err |};
                 t_writes := ws; t_graces := g' |} in
    match rp_phase st with
    | RpProgressing =>
      match progressing_tr t st s w br n g with
      | TpPanic => TrPanic
      | TpOk o => if tp_err o then out None (tp_br o) (tp_anno o) false true (tp_writes o) (tp_graces o)
                  else out (Some (tp_status o)) (tp_br o) (tp_anno o) (tp_requeue o) false (tp_writes o) (tp_graces o)
      end
    | RpTerminating =>
      match rp_term st with
      | Some false =>
        (* an inconsistent workload status makes the reconcile wait (the finder would hand out an empty workload) *)
        if wl_exists w && negb (wl_consistent w) then out (Some s) br false true false [] g else
        let '(done, s1, br', anno, ws, g', err) := do_finalising_tr t s w br FrDelete false n g in
        if err then out None br anno false true ws g'
        else out (Some (if done then set_term s1 (Some true) else s1)) br' anno (negb done) false ws g'
      | _ => plain (reconcile sp st w br)
      end
    | RpDisabling =>
      if wl_exists w && negb (wl_consistent w) then out (Some s) br false true false [] g else
      let '(done, s1, br', anno, ws, g', err) := do_finalising_tr t s w br FrDisabled false n g in
      if err then out None br anno false true ws g'
      else out (Some (if done then set_rphase s1 RpDisabled else s1)) br' anno (negb done) false ws g'
    | _ => plain (reconcile sp st w br)
    end
  end.
