(* Which watch events wake which controller (C07: "reconciles that are all triggered by the controller's own requeue requests or
   by watch events; it never waits on a wake-up that will not come").
   - pkg/controller/batchrelease/batchrelease_event_handler.go: workloadEventHandler (Create / Update / Delete), podEventHandler
     (Create / Update), getBatchRelease
   - pkg/controller/rollout/rollout_event_handler.go: enqueueRequestForWorkload, enqueueRequestForBatchRelease
   Objects are reduced to what the handlers read. *)
From RV Require Import Base.Util Base.IntStr.

(* the control-info annotation of a workload *)
Inductive ctlinfo := CiNone | CiBatchRelease (name : string) | CiOtherKind (name : string) | CiGarbage.
Record brref := { bf_name : string; bf_kind : string; bf_group : string; bf_target : string }.   (* a BatchRelease and its workloadRef *)
Record wstatus := { ws_replicas : Z; ws_updated : Z; ws_ready : Z; ws_obs_gen : Z; ws_update_rev : string }.
Definition wstatus_eqb (a b : wstatus) : bool :=
  (ws_replicas a =? ws_replicas b) && (ws_updated a =? ws_updated b) && (ws_ready a =? ws_ready b) && (ws_obs_gen a =? ws_obs_gen b) &&
  String.eqb (ws_update_rev a) (ws_update_rev b).
Record wobj := { wo_kind : string; wo_group : string; wo_name : string; wo_ctl : ctlinfo; wo_rv : Z; wo_gen : Z; wo_status : wstatus }.

(* getBatchRelease: the control-info annotation wins; otherwise the LAST BatchRelease of the namespace whose workloadRef matches *)
Definition br_targets (w : wobj) (b : brref) : bool :=
  String.eqb (bf_kind b) (wo_kind w) && String.eqb (bf_group b) (wo_group w) && String.eqb (bf_target b) (wo_name w).
Definition get_batch_release (brs : list brref) (w : wobj) : string :=
  match wo_ctl w with
  | CiBatchRelease n => n
  | _ => fold_left (fun acc b => if br_targets w b then bf_name b else acc) brs ""%string
  end.
Definition enq (n : string) : list string := if sempty n then [] else [n].

(* BatchRelease controller, workload events *)
Definition br_on_workload_create_or_delete (brs : list brref) (w : wobj) : list string := enq (get_batch_release brs w).
Definition br_on_workload_update (brs : list brref) (old new : wobj) : list string :=
  if wo_rv new =? wo_rv old then [] else
  if negb (wo_gen old =? wo_gen new) || negb (wstatus_eqb (wo_status old) (wo_status new)) then enq (get_batch_release brs new) else [].

(* BatchRelease controller, pod events: a pod owned directly by the workload *)
Record podobs := { po_rv : Z; po_revision : string (* pod-template-hash / controller-revision-hash, "" when absent *); po_ready : bool }.
Definition br_on_pod_update (brs : list brref) (owner : option wobj) (old new : podobs) : list string :=
  if (po_rv old =? po_rv new) || ((negb (sempty (po_revision old)) && String.eqb (po_revision old) (po_revision new)) && Bool.eqb (po_ready old) (po_ready new)) then [] else
  match owner with
  | Some w => match wo_ctl w with CiNone => [] | _ => enq (get_batch_release brs w) end   (* only while the workload is claimed *)
  | None => []
  end.
Definition br_on_pod_create (brs : list brref) (owner : option wobj) : list string :=
  match owner with
  | Some w => match wo_ctl w with CiNone => [] | _ => enq (get_batch_release brs w) end
  | None => []
  end.

(* Rollout controller: any workload event wakes the FIRST Rollout of the namespace whose workloadRef matches; an update of a
   BatchRelease wakes the Rollout of the same name (creations and deletions of BatchReleases are not delivered) *)
Record roref := { rf_name : string; rf_kind : string; rf_group : option string (* None: apiVersion does not parse *); rf_target : string }.
Definition ro_targets (w : wobj) (r : roref) : bool :=
  match rf_group r with Some g => String.eqb (rf_kind r) (wo_kind w) && String.eqb g (wo_group w) && String.eqb (rf_target r) (wo_name w) | None => false end.
Definition ro_on_workload_event (ros : list roref) (w : wobj) : list string :=
  match find (ro_targets w) ros with Some r => [rf_name r] | None => [] end.
Inductive evkind := EvCreate | EvUpdate | EvDelete.
Definition ro_on_batchrelease_event (k : evkind) (name : string) : list string := match k with EvUpdate => [name] | _ => [] end.
