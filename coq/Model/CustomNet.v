(* Model of the custom (Lua) network provider
   (pkg/trafficrouting/network/customNetworkProvider/custom_network_provider.go):
   EnsureRoutes, Finalise, storeObject, restoreObject, compareAndUpdateObject.
   The Lua script of a reference is a parameter: any deterministic function of the stored original and the step. *)
From RV Require Import Base.Util.

Definition smap := list (string * string).          (* string map, keys sorted *)
Definition omap := option smap.                     (* None = the field is absent (nil map) *)
Definition smap_eqb (a b : smap) : bool := list_eqb (fun x y => String.eqb (fst x) (fst y) && String.eqb (snd x) (snd y)) a b.
Definition omap_eqb (a b : omap) : bool := opt_eqb smap_eqb a b.
(* Go's `omitempty` on a map: an empty map is not written, and reads back as nil *)
Definition omit_empty (m : omap) : omap := match m with Some [] => None | x => x end.

(* what the snapshot annotation holds and what a script receives and returns (type Data) *)
Record data := { d_spec : option string; d_labels : omap; d_annos : omap }.
Definition data_eqb (a b : data) : bool :=
  opt_eqb String.eqb (d_spec a) (d_spec b) && omap_eqb (d_labels a) (d_labels b) && omap_eqb (d_annos a) (d_annos b).

(* rollouts.kruise.io/original-spec-configuration: absent, present but empty, or a stored Data *)
Inductive snap := SAbsent | SEmpty | SData (d : data).

Record obj := {
  o_spec : option string;                           (* canonical JSON of .spec, None when there is no spec *)
  o_labels : omap;
  o_annos : omap;                                   (* annotations other than the snapshot; None only if no annotation at all *)
  o_snap : snap
}.

Section Provider.
  Context {S : Type}.                               (* a step (TrafficRoutingStrategy) *)
  Variable script : nat -> data -> S -> option data. (* script of the i-th reference; None = the script fails *)

  (* storeObject: the snapshot is the JSON of Data{spec, labels, annotations-without-the-snapshot} *)
  Definition snapshot_of (o : obj) : data :=
    {| d_spec := o_spec o; d_labels := omit_empty (o_labels o); d_annos := omit_empty (o_annos o) |}.
  Definition store (o : obj) : obj * Z :=
    match o_snap o with
    | SAbsent => ({| o_spec := o_spec o; o_labels := o_labels o; o_annos := Some (match o_annos o with Some a => a | None => [] end);
                     o_snap := SData (snapshot_of o) |}, 1)
    | _ => (o, 0)
    end.

  (* compareAndUpdateObject *)
  Definition same_spec (a b : option string) : bool := opt_eqb String.eqb a b.
  Definition apply_data (d : data) (o : obj) : obj * Z :=
    let annos := match d_annos d with Some a => a | None => [] end in
    if same_spec (o_spec o) (d_spec d) && omap_eqb (o_annos o) (Some annos) && omap_eqb (o_labels o) (d_labels d)
    then (o, 0)
    else ({| o_spec := d_spec d; o_labels := d_labels d; o_annos := Some annos; o_snap := o_snap o |}, 1).

  Inductive eresult := EDone (done : bool) | EErr.

  Fixpoint all_present (l : list (option obj)) : option (list obj) :=
    match l with
    | [] => Some []
    | Some o :: t => match all_present t with Some r => Some (o :: r) | None => None end
    | None :: _ => None
    end.

  Fixpoint run_scripts (i : nat) (l : list obj) (s : S) : option (list data) :=
    match l with
    | [] => Some []
    | o :: t =>
      match o_snap o with
      | SData d => match script i d s with
                   | Some r => match run_scripts (Datatypes.S i) t s with Some rs => Some (r :: rs) | None => None end
                   | None => None
                   end
      | _ => None                                   (* "failed to get original spec from annotation" *)
      end
    end.

  Fixpoint apply_all (ds : list data) (l : list obj) : list obj * Z :=
    match ds, l with
    | d :: ds', o :: t => let '(o', w) := apply_data d o in let '(t', w') := apply_all ds' t in (o' :: t', w + w')
    | _, _ => (l, 0)
    end.

  (* EnsureRoutes: returns the objects, the result and the number of Update calls *)
  Definition ensure (l : list (option obj)) (s : S) : list (option obj) * eresult * Z :=
    match all_present l with
    | None => (l, EErr, 0)
    | Some objs =>
      let stored := map store objs in
      let objs1 := map fst stored in
      let w1 := fold_right Z.add 0 (map snd stored) in
      match run_scripts 0 objs1 s with
      | None => (map Some objs1, EErr, w1)
      | Some ds => let '(objs2, w2) := apply_all ds objs1 in (map Some objs2, EDone (w2 =? 0), w1 + w2)
      end
    end.

  (* restoreObject *)
  Definition restore (o : obj) : obj * bool :=
    match o_snap o with
    | SData d => ({| o_spec := d_spec d; o_labels := d_labels d; o_annos := d_annos d; o_snap := SAbsent |}, true)
    | _ => (o, false)
    end.
  (* Finalise: missing objects are skipped *)
  Definition finalise (l : list (option obj)) : list (option obj) * bool :=
    let r := map (fun x => match x with Some o => let '(o', m) := restore o in (Some o', m) | None => (None, false) end) l in
    (map fst r, existsb snd r).

  Inductive op := OEnsure (s : S) | OFinalise.
  Definition step (l : list (option obj)) (o : op) : list (option obj) :=
    match o with OEnsure s => fst (fst (ensure l s)) | OFinalise => fst (finalise l) end.
  Definition run (l : list (option obj)) (ops : list op) : list (option obj) := fold_left step ops l.
End Provider.
