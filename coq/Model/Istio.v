(* Model of the built-in Istio scripts (lua_configuration/networking.istio.io/VirtualService/trafficRouting.lua and
   DestinationRule/trafficRouting.lua) on a projection of the spec: per rule, whether it carries `match`, and its
   route destinations (host, subset, weight); everything else is carried along as an opaque digest. *)
From RV Require Import Base.Util.

Record route := { rt_host : string; rt_subset : string (* "" = none *); rt_weight : option Z; rt_rest : string }.
Record vrule := { vr_match : bool; vr_routes : list route; vr_rest : string }.
Record vspec := { vs_http : option (list vrule); vs_tcp : option (list vrule); vs_tls : option (list vrule); vs_rest : string }.

Fixpoint before_dot (s : string) : string :=
  match s with
  | EmptyString => EmptyString
  | String c r => if Ascii.eqb c "."%char then EmptyString else String c (before_dot r)
  end.
(* GetHost *)
Definition host_of (r : route) : string := before_dot (rt_host r).

(* CalculateWeight; Lua numbers are doubles, all quantities here are small integers *)
Definition calc_weight (r : route) (stable_w n : Z) : Z :=
  match rt_weight r with Some w => (w * stable_w) / 100 | None => stable_w / n end.

Definition canary_route (stable canary : string) (cw : Z) : route :=
  if String.eqb stable canary
  then {| rt_host := stable; rt_subset := "canary"; rt_weight := Some cw; rt_rest := "" |}
  else {| rt_host := canary; rt_subset := ""; rt_weight := Some cw; rt_rest := "" |}.

(* one visit of GenerateRoutes' outer loop to a rule *)
Definition patch_once (stable canary : string) (sw cw : Z) (routes : list route) : list route :=
  map (fun r => {| rt_host := rt_host r; rt_subset := rt_subset r; rt_weight := Some (calc_weight r sw (zlen routes)); rt_rest := rt_rest r |}) routes
  ++ [canary_route stable canary cw].

Fixpoint iter {A} (n : nat) (f : A -> A) (x : A) : A := match n with O => x | S k => iter k f (f x) end.

(* GetRulesToPatch inserts a rule once per route that points at the stable service; each insertion is one visit *)
Definition visits (stable : string) (r : vrule) : nat :=
  if vr_match r then O else List.length (filter (fun rt => String.eqb (host_of rt) stable) (vr_routes r)).
Definition patch_rule (stable canary : string) (sw cw : Z) (r : vrule) : vrule :=
  {| vr_match := vr_match r; vr_routes := iter (visits stable r) (patch_once stable canary sw cw) (vr_routes r); vr_rest := vr_rest r |}.
Definition gen_routes (stable canary : string) (sw cw : Z) (rules : option (list vrule)) : option (list vrule) :=
  match rules with Some l => Some (map (patch_rule stable canary sw cw) l) | None => None end.

(* the rule GenerateRoutesWithMatches puts in front of spec.http for one match (its match/headers content is not modelled) *)
Definition match_rule (stable canary : string) : vrule :=
  {| vr_match := true;
     vr_routes := [if String.eqb stable canary then {| rt_host := stable; rt_subset := "canary"; rt_weight := None; rt_rest := "" |}
                   else {| rt_host := canary; rt_subset := ""; rt_weight := None; rt_rest := "" |}];
     vr_rest := "" |}.

(* the whole VirtualService script: weight w = -1 stands for "no weight given"; nmatches = #obj.matches.
   None = the script fails (spec.http absent on the matches path) *)
Definition virtual_service (stable canary : string) (w : Z) (nmatches : nat) (s : vspec) : option vspec :=
  let cw := if w =? -1 then 100 else w in
  let sw := if w =? -1 then 0 else 100 - w in
  match nmatches with
  | O => Some {| vs_http := gen_routes stable canary sw cw (vs_http s); vs_tcp := gen_routes stable canary sw cw (vs_tcp s);
                 vs_tls := gen_routes stable canary sw cw (vs_tls s); vs_rest := vs_rest s |}
  | _ => match vs_http s with
         | Some l => Some {| vs_http := Some (repeat (match_rule stable canary) nmatches ++ l); vs_tcp := vs_tcp s; vs_tls := vs_tls s; vs_rest := vs_rest s |}
         | None => None
         end
  end.

(* DestinationRule script: append the canary subset; the spec must have a subsets list *)
Definition destination_rule (subsets : option (list string)) : option (list string) :=
  match subsets with Some l => Some (l ++ ["canary"]) | None => None end.
