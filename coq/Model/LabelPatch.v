(* Model of pkg/controller/batchrelease/labelpatch: PatchPodBatchLabel and the unordered filter. *)
From RV Require Import Base.Util Base.IntStr.

Inductive owner_info :=
  | NoRSOwner                 (* controller owner absent or not a ReplicaSet *)
  | RSMissing                 (* owner is a ReplicaSet that cannot be fetched (Get returns an error) *)
  | RSHash (h : string).      (* owner is a ReplicaSet; h = ComputeHash of its template without pod-template-hash *)

Record pod := {
  p_name : string; p_deleting : bool;
  p_pth : string;             (* label pod-template-hash, "" when absent *)
  p_crh : string;             (* label controller-revision-hash *)
  p_owner : owner_info;
  p_rid : string;             (* label rollouts.kruise.io/rollout-id *)
  p_bid : string;             (* label rollouts.kruise.io/rollout-batch-id *)
  p_nnu : string              (* label rollouts.kruise.io/no-need-update *)
}.

Inductive filter_kind := FNone | FUnordered | FOrdered (desired_partition : ios).

Record lp_input := {
  i_batches : list ios; i_replicas : Z; i_cur : Z;
  i_rid : string; i_rev : string; i_pods : list pod;
  i_filter : filter_kind; i_desired : Z; i_planned : Z
}.

Definition set_pod (p : pod) (rid bid crh : string) : pod :=
  {| p_name := p_name p; p_deleting := p_deleting p; p_pth := p_pth p; p_crh := crh;
     p_owner := p_owner p; p_rid := rid; p_bid := bid; p_nnu := p_nnu p |}.

(* util.IsConsistentWithRevision on (pod-template-hash, controller-revision-hash) *)
Definition consistent (pth crh rev : string) : bool :=
  (negb (sempty pth) && has_suffix rev pth) || (negb (sempty crh) && has_suffix rev crh).

(* control/labelpatch calculateBatchReplicas *)
Definition calc_batch_replicas (b : ios) (n : Z) : Z :=
  let s := scaled true b n in if n <? s then n else if s <? 0 then 0 else s.

(* calculatePlannedStepIncrements; requires 0 <= cur < length batches, else the Go code panics *)
Definition cumulative (batches : list ios) (n : Z) (cur : Z) : list Z :=
  map (fun ib => if fst ib <=? cur then calc_batch_replicas (snd ib) n else 0) (number_from 0 batches).
Fixpoint diffs (prev : Z) (l : list Z) : list Z :=
  match l with [] => [] | x :: l' => (x - prev) :: diffs x l' end.
Definition planned_increments (batches : list ios) (n : Z) (cur : Z) : list Z :=
  let c := cumulative batches n cur in
  map (fun ix => if fst ix <=? cur then snd ix else 0) (number_from 0 (diffs 0 c)).

(* FilterPodsForUnorderedUpdate *)
Definition filter_unordered (i : lp_input) : list pod :=
  let pods := i_pods i in
  let term := filter p_deleting pods in
  let live := filter (fun p => negb (p_deleting p) && consistent (p_pth p) (p_crh p) (i_rev i)) pods in
  let is_low p := String.eqb (p_nnu p) (i_rid i) && negb (String.eqb (p_rid p) (i_rid i)) in
  let low := filter is_low live in
  let high := filter (fun p => negb (is_low p)) live in
  let need := i_desired i - zlen low in
  if need <=? 0 then pods else
  let diff := i_planned i - need in
  if diff <=? 0 then high ++ term else
  high ++ firstn (Z.to_nat (Z.min diff (zlen low))) low ++ term.

(* FilterPodsForOrderedUpdate (StatefulSets).  sortPodsByOrdinal compares Atoi(name[LastIndex(name,"-"):]) — the dash is part
   of what is parsed, so the key is MINUS the ordinal and the ascending sort puts the highest ordinal first; a name that does
   not parse has key 0, a name without any dash makes the slice expression panic.  getPodOrdinal parses what follows the dash. *)
Fixpoint after_last_dash (s : string) : option string :=
  match s with
  | EmptyString => None
  | String c r => match after_last_dash r with Some x => Some x | None => if Ascii.eqb c "-"%char then Some r else None end
  end.
Definition sort_key (p : pod) : option Z :=
  match after_last_dash (p_name p) with
  | None => None
  | Some suf => Some (match atoi (String "-"%char suf) with Some z => z | None => 0 end)
  end.
Definition pod_ordinal (p : pod) : Z :=
  match after_last_dash (p_name p) with Some suf => match atoi suf with Some z => z | None => 0 end | None => 0 end.
Definition key0 (p : pod) : Z := match sort_key p with Some z => z | None => 0 end.
Fixpoint insert_by (p : pod) (l : list pod) : list pod :=
  match l with [] => [p] | h :: t => if key0 p <=? key0 h then p :: h :: t else h :: insert_by p t end.
Definition sort_by_ordinal (l : list pod) : list pod := fold_right insert_by [] l.
(* None: the sort panicked *)
Definition filter_ordered (dp : ios) (i : lp_input) : option (list pod) :=
  if existsb (fun p => match sort_key p with None => true | Some _ => false end) (i_pods i) && (1 <? zlen (i_pods i)) then None else
  let pods := sort_by_ordinal (i_pods i) in
  let partition := scaled true dp (i_replicas i) in
  let term := filter p_deleting pods in
  let live := filter (fun p => negb (p_deleting p) && consistent (p_pth p) (p_crh p) (i_rev i)) pods in
  let high := filter (fun p => partition <=? pod_ordinal p) live in
  let low := filter (fun p => negb (partition <=? pod_ordinal p)) live in
  let need := i_replicas i - partition in
  if need <=? 0 then Some pods else
  let diff := i_planned i - need in
  let k := Z.to_nat (Z.min (Z.max diff 0) (zlen low)) in
  (* since the fix of F33: low-priority pods outside the window that already carry this release's label still reach the
     patcher (before it they were dropped, and the budget of their batch was handed out a second time) *)
  Some (high ++ firstn k low ++ filter (fun p => String.eqb (p_rid p) (i_rid i)) (skipn k low) ++ term).
Definition pods_used_opt (i : lp_input) : option (list pod) :=
  match i_filter i with FNone => Some (i_pods i) | FUnordered => Some (filter_unordered i) | FOrdered dp => filter_ordered dp i end.

(* first loop of patchPodBatchLabel: classification of one pod *)
Inductive pclass :=
  | PSkip                      (* deleting, other revision, or non-numeric batch id *)
  | PUnpatched (crh : option string)   (* to be labelled; Some h: controller-revision-hash computed from the RS *)
  | PCounted (b : Z)           (* already labelled for this release with batch id b *)
  | PHashOnly (h : string)     (* skipped, but its computed controller-revision-hash must still be patched *)
  | PError.                    (* ReplicaSet Get failed: the whole call returns an error *)

Definition classify (i : lp_input) (p : pod) : pclass :=
  if p_deleting p then PSkip else
  let computed := if sempty (p_crh p) then
                    match p_owner p with RSHash h => Some (Some h) | RSMissing => None | NoRSOwner => Some None end
                  else Some None in
  match computed with
  | None => PError
  | Some ch =>
    let crh := match ch with Some h => h | None => p_crh p end in
    let hash_only := match ch with Some h => PHashOnly h | None => PSkip end in
    if negb (consistent (p_pth p) crh (i_rev i)) then hash_only else
    if negb (String.eqb (p_rid p) (i_rid i)) then PUnpatched ch else
    match atoi (p_bid p) with
    | None => hash_only
    | Some b => PCounted b
    end
  end.

(* plannedUpdatedReplicasForBatches[podBatchID-1]-- ; since the fix of F2 a batch id outside
   1..len(plan) is skipped (before it, the slice index panicked: None). *)
Definition dec_plan (plan : list Z) (b : Z) : option (list Z) :=
  if (1 <=? b) && (b <=? zlen plan) then Some (zupd plan (Z.to_nat (b - 1)) (fun x => x - 1)) else Some plan.

Inductive scan := ScanOk (plan : list Z) (unpatched : list (pod * option string)) (hashonly : list (pod * string))
                | ScanErr | ScanPanic.

Fixpoint scan_pods (i : lp_input) (pods : list pod) (plan : list Z)
         (unp : list (pod * option string)) (ho : list (pod * string)) : scan :=
  match pods with
  | [] => ScanOk plan unp ho
  | p :: rest =>
    match classify i p with
    | PSkip => scan_pods i rest plan unp ho
    | PError => ScanErr
    | PHashOnly h => scan_pods i rest plan unp (ho ++ [(p, h)])
    | PUnpatched ch => scan_pods i rest plan (unp ++ [(p, ch)]) ho
    | PCounted b =>
      let ho' := match (if sempty (p_crh p) then p_owner p else NoRSOwner) with RSHash h => ho ++ [(p, h)] | _ => ho end in
      match dec_plan plan b with
      | Some plan' => scan_pods i rest plan' unp ho'
      | None => ScanPanic
      end
    end
  end.

(* one label write: pod name, rollout-id, batch-id (None: only the hash is patched), hash *)
Record lwrite := { w_pod : string; w_rid : option string; w_bid : option Z; w_crh : option string }.

(* second loop: batches from the last to the first, pods from the end of the unpatched list.
   When the pods run out the Go code leaves both loops (i = -1; break). *)
Definition mk_write (bid : Z) (rid : string) (pc : pod * option string) : lwrite :=
  {| w_pod := p_name (fst pc); w_rid := Some rid; w_bid := Some bid; w_crh := snd pc |}.
Definition take_for_batch (k : nat) (bid : Z) (rid : string) (unp_rev : list (pod * option string))
  : list lwrite * list (pod * option string) * bool (* ran out *) :=
  (map (mk_write bid rid) (firstn k unp_rev), skipn k unp_rev, Nat.ltb (List.length unp_rev) k).

Fixpoint assign (rid : string) (plan_rev : list (Z * Z)) (unp_rev : list (pod * option string))
  : list lwrite * list (pod * option string) :=
  match plan_rev with
  | [] => ([], unp_rev)
  | (idx, cnt) :: rest =>
    let '(ws, lft, out) := take_for_batch (Z.to_nat cnt) (idx + 1) rid unp_rev in
    if out then (ws, lft) else
    let '(ws', lft') := assign rid rest lft in (ws ++ ws', lft')
  end.

Record lp_output := { o_writes : list lwrite }.

Definition patch_pod_batch_label (i : lp_input) : outcome (list lwrite) :=
  if sempty (i_rid i) || (zlen (i_pods i) =? 0) then Ok [] else
  match pods_used_opt i with None => Panic | Some pods =>
  if (i_cur i <? 0) || (zlen (i_batches i) <=? i_cur i) then Panic else
  match scan_pods i pods (planned_increments (i_batches i) (i_replicas i) (i_cur i)) [] [] with
  | ScanPanic => Panic
  | ScanErr => Err []
  | ScanOk plan unp ho =>
    let '(ws, lft) := assign (i_rid i) (rev (number_from 0 plan)) (rev unp) in
    (* pods that were in the unpatched list but received no batch keep a pending hash patch *)
    let left_hash := flat_map (fun pc => match snd pc with Some h => [(fst pc, h)] | None => [] end) lft in
    Ok (ws ++ map (fun ph => {| w_pod := p_name (fst ph); w_rid := None; w_bid := None; w_crh := Some (snd ph) |})
                  (ho ++ left_hash))
  end end.

(* effect of the writes on the pod list (pods are identified by name; names are distinct) *)
Definition apply_write (w : lwrite) (p : pod) : pod :=
  if String.eqb (w_pod w) (p_name p) then
    set_pod p (match w_rid w with Some r => r | None => p_rid p end)
              (match w_bid w with Some b => itoa b | None => p_bid p end)
              (match w_crh w with Some h => h | None => p_crh p end)
  else p.
Definition apply_writes (ws : list lwrite) (pods : list pod) : list pod :=
  fold_left (fun ps w => map (apply_write w) ps) ws pods.
