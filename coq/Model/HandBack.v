(* Model of the blue-green control planes' Initialize / UpgradeBatch / Finalize on the fields a user configures:
   pkg/controller/batchrelease/control/bluegreenstyle/{deployment,cloneset}/control.go, .../hpa/hpa.go and
   control/util.go (GetOriginalSetting / InitOriginalSetting / ValidateReadyForBlueGreenRelease).
   A scenario is what successive BatchRelease reconciles do: Initialize, some UpgradeBatch calls, Finalize; the n-th Patch
   call of the whole scenario may fail, and a failed phase is tried again (as the executor does on the next reconcile). *)
From RV Require Import Base.Util Base.IntStr.

Inductive bgkind := BGDeploy | BGClone.
Definition max_progress : Z := 2147483647.
Definition max_ready : Z := 2147483646.

(* the OriginalDeploymentStrategy annotation *)
Record saved := { sv_unavail : option ios; sv_surge : option ios; sv_min_ready : Z; sv_deadline : option Z }.

Record bgw := {
  w_min_ready : Z; w_deadline : option Z;             (* progressDeadlineSeconds: Deployment only *)
  w_surge : option ios; w_unavail : option ios;       (* Deployment: both None = no rollingUpdate block *)
  w_paused : bool; w_partition : option ios;          (* partition: CloneSet only *)
  w_saved : option saved; w_claimed : bool; w_label : bool;   (* annotations; stable-revision label (Deployment) *)
  w_hpa : option bool;                                (* an HPA targets the workload; true: its target carries the disable suffix *)
  w_rs_min_ready : option Z                           (* Deployment: minReadySeconds of the stable ReplicaSet, if there is one *)
}.

Definition opt_ios_eqb := opt_eqb ios_eqb.
Definition saved_eqb (a b : saved) : bool :=
  opt_ios_eqb (sv_unavail a) (sv_unavail b) && opt_ios_eqb (sv_surge a) (sv_surge b) && (sv_min_ready a =? sv_min_ready b) &&
  opt_eqb Z.eqb (sv_deadline a) (sv_deadline b).
Definition bgw_eqb (a b : bgw) : bool :=
  (w_min_ready a =? w_min_ready b) && opt_eqb Z.eqb (w_deadline a) (w_deadline b) && opt_ios_eqb (w_surge a) (w_surge b) &&
  opt_ios_eqb (w_unavail a) (w_unavail b) && Bool.eqb (w_paused a) (w_paused b) && opt_ios_eqb (w_partition a) (w_partition b) &&
  opt_eqb saved_eqb (w_saved a) (w_saved b) && Bool.eqb (w_claimed a) (w_claimed b) && Bool.eqb (w_label a) (w_label b) &&
  opt_eqb Bool.eqb (w_hpa a) (w_hpa b) && opt_eqb Z.eqb (w_rs_min_ready a) (w_rs_min_ready b).

(* the Patch counter: Some n = the n-th Patch from now fails *)
Definition fault := option nat.
Definition patch (f : fault) : bool * fault :=
  match f with Some 1%nat => (true, None) | Some (S n) => (false, Some n) | Some O => (false, None) | None => (false, None) end.

Definition default_surge (k : bgkind) : ios := match k with BGDeploy => IPct 25 | BGClone => IPct 0 end.
Definition default_unavail (k : bgkind) : ios := match k with BGDeploy => IPct 25 | BGClone => IPct 20 end.
Definition orelse {A} (a : option A) (b : A) : A := match a with Some x => x | None => b end.

Definition with_hpa (w : bgw) (h : option bool) : bgw :=
  {| w_min_ready := w_min_ready w; w_deadline := w_deadline w; w_surge := w_surge w; w_unavail := w_unavail w; w_paused := w_paused w;
     w_partition := w_partition w; w_saved := w_saved w; w_claimed := w_claimed w; w_label := w_label w; w_hpa := h; w_rs_min_ready := w_rs_min_ready w |}.
Definition with_rs (w : bgw) (r : option Z) : bgw :=
  {| w_min_ready := w_min_ready w; w_deadline := w_deadline w; w_surge := w_surge w; w_unavail := w_unavail w; w_paused := w_paused w;
     w_partition := w_partition w; w_saved := w_saved w; w_claimed := w_claimed w; w_label := w_label w; w_hpa := w_hpa w; w_rs_min_ready := r |}.

(* InitOriginalSetting on top of GetOriginalSetting *)
Definition init_setting (k : bgkind) (w : bgw) : saved :=
  let s0 := orelse (w_saved w) {| sv_unavail := None; sv_surge := None; sv_min_ready := 0; sv_deadline := None |} in
  {| sv_unavail := Some (orelse (sv_unavail s0) (orelse (w_unavail w) (default_unavail k)));
     sv_surge := Some (orelse (sv_surge s0) (orelse (w_surge w) (default_surge k)));
     sv_min_ready := if sv_min_ready s0 =? 0 then w_min_ready w else sv_min_ready s0;
     sv_deadline := match k with BGDeploy => Some (orelse (sv_deadline s0) (orelse (w_deadline w) 600)) | BGClone => sv_deadline s0 end |}.

(* result of one phase attempt: did it return an error *)
Definition initialize (k : bgkind) (f : fault) (w : bgw) : bool * bgw * fault :=
  if w_claimed w then (false, w, f) else
  (* DisableHPA *)
  let '(e1, w1, f1) := match w_hpa w with
                       | Some false => let '(fl, f') := patch f in if fl then (true, w, f') else (false, with_hpa w (Some true), f')
                       | _ => (false, w, f) end in
  if e1 then (true, w1, f1) else
  (* patchStableRSMinReadySeconds *)
  let '(e2, w2, f2) := match k, w_rs_min_ready w1 with
                       | BGDeploy, Some _ => let '(fl, f') := patch f1 in if fl then (true, w1, f') else (false, with_rs w1 (Some max_ready), f')
                       | _, _ => (false, w1, f1) end in
  if e2 then (true, w2, f2) else
  let '(fl, f3) := patch f2 in if fl then (true, w2, f3) else
  let sv := init_setting k w2 in
  (false,
   {| w_min_ready := max_ready; w_deadline := match k with BGDeploy => Some max_progress | BGClone => w_deadline w2 end;
      w_surge := Some (IInt 1); w_unavail := Some (IInt 0);
      w_paused := match k with BGDeploy => w_paused w2 | BGClone => false end; w_partition := w_partition w2;
      w_saved := Some sv; w_claimed := true; w_label := w_label w2; w_hpa := w_hpa w2; w_rs_min_ready := w_rs_min_ready w2 |}, f3).

(* ValidateReadyForBlueGreenRelease *)
Definition validate (k : bgkind) (w : bgw) : bool :=
  w_claimed w &&
  match k with
  | BGDeploy => (match w_surge w, w_unavail w with None, None => false | _, _ => true end) &&
                (w_min_ready w =? max_ready) && opt_eqb Z.eqb (w_deadline w) (Some max_progress)
  | BGClone => w_min_ready w =? max_ready
  end.

Definition upgrade (k : bgkind) (n : Z) (step : ios) (f : fault) (w : bgw) : bool * bgw * fault :=
  if n =? 0 then (false, w, f) else
  if negb (validate k w) then (true, w, f) else
  let cur0 := orelse (w_surge w) (IInt 0) in
  let cur := if ios_eqb cur0 (IInt 1) then IInt 0 else cur0 in
  if scaled true step n <=? scaled true cur n then (false, w, f) else
  let '(fl, f1) := patch f in if fl then (true, w, f1) else
  (false,
   {| w_min_ready := w_min_ready w; w_deadline := w_deadline w; w_surge := Some step;
      w_unavail := match k with BGDeploy => Some (IInt 0) | BGClone => w_unavail w end;
      w_paused := match k with BGDeploy => false | BGClone => w_paused w end;
      w_partition := match k with BGDeploy => w_partition w | BGClone => None end;
      w_saved := w_saved w; w_claimed := w_claimed w; w_label := w_label w; w_hpa := w_hpa w; w_rs_min_ready := w_rs_min_ready w |}, f1).

(* Finalize with every pod updated and ready (the waiting itself is Model/BGFinal.v) *)
Definition finalize (k : bgkind) (partitioned : bool) (f : fault) (w : bgw) : bool * bgw * fault :=
  if partitioned then (false, w, f) else
  let '(e1, w1, f1) :=
      match w_saved w with
      | None => (false, w, f)
      | Some sv =>
        let '(fl, f') := patch f in if fl then (true, w, f') else
        (false,
         {| w_min_ready := sv_min_ready sv; w_deadline := match k with BGDeploy => sv_deadline sv | BGClone => w_deadline w end;
            w_surge := sv_surge sv; w_unavail := sv_unavail sv;
            w_paused := match k with BGDeploy => false | BGClone => w_paused w end; w_partition := w_partition w;
            w_saved := None; w_claimed := false; w_label := match k with BGDeploy => false | BGClone => w_label w end;
            w_hpa := w_hpa w; w_rs_min_ready := w_rs_min_ready w |}, f')
      end in
  if e1 then (true, w1, f1) else
  (* RestoreHPA *)
  match w_hpa w1 with
  | Some true => let '(fl, f2) := patch f1 in if fl then (true, w1, f2) else (false, with_hpa w1 (Some false), f2)
  | _ => (false, w1, f1)
  end.

Inductive phase := PInit | PUpgrade (step : ios) | PFinal.
Definition run_phase (k : bgkind) (n : Z) (partitioned : bool) (p : phase) (f : fault) (w : bgw) : bool * bgw * fault :=
  match p with PInit => initialize k f w | PUpgrade s => upgrade k n s f w | PFinal => finalize k partitioned f w end.
(* a phase is attempted up to three times; the errors of the attempts are recorded *)
Definition try_phase (k : bgkind) (n : Z) (partitioned : bool) (p : phase) (f : fault) (w : bgw) : list bool * bgw * fault :=
  let '(e1, w1, f1) := run_phase k n partitioned p f w in
  if negb e1 then ([e1], w1, f1) else
  let '(e2, w2, f2) := run_phase k n partitioned p f1 w1 in
  if negb e2 then ([e1; e2], w2, f2) else
  let '(e3, w3, f3) := run_phase k n partitioned p f2 w2 in ([e1; e2; e3], w3, f3).
Fixpoint scenario (k : bgkind) (n : Z) (partitioned : bool) (ps : list phase) (f : fault) (w : bgw) : list (list bool) * bgw :=
  match ps with
  | [] => ([], w)
  | p :: rest => let '(es, w1, f1) := try_phase k n partitioned p f w in
                 let '(ess, w2) := scenario k n partitioned rest f1 w1 in (es :: ess, w2)
  end.

(* what the settings MEAN: absent fields read as the API server's defaults *)
Record effective := { e_min_ready : Z; e_deadline : Z; e_surge : ios; e_unavail : ios; e_hpa_on : bool }.
Definition eff (k : bgkind) (w : bgw) : effective :=
  {| e_min_ready := w_min_ready w; e_deadline := match k with BGDeploy => orelse (w_deadline w) 600 | BGClone => 0 end;
     e_surge := orelse (w_surge w) (default_surge k); e_unavail := orelse (w_unavail w) (default_unavail k);
     e_hpa_on := match w_hpa w with Some true => false | _ => true end |}.
Definition eff_eqb (a b : effective) : bool :=
  (e_min_ready a =? e_min_ready b) && (e_deadline a =? e_deadline b) && ios_eqb (e_surge a) (e_surge b) && ios_eqb (e_unavail a) (e_unavail b) &&
  Bool.eqb (e_hpa_on a) (e_hpa_on b).
(* a workload nobody controls *)
Definition fresh (w : bgw) : bool := negb (w_claimed w) && match w_saved w with None => true | Some _ => false end &&
  match w_hpa w with Some true => false | _ => true end.
Definition handed_back (k : bgkind) (w0 w : bgw) : bool :=
  eff_eqb (eff k w) (eff k w0) && negb (w_claimed w) && match w_saved w with None => true | Some _ => false end &&
  match k with BGDeploy => negb (w_paused w) && negb (w_label w) | BGClone => true end.
