(* Model of the Rollout validating webhook (pkg/webhook/rollout/validating/rollout_create_update_handler.go and
   validate_v1alphal_rollout.go): spec validation, conflict check, update immutability -- for both API versions. *)
From RV Require Import Base.Util Base.IntStr.

Inductive vstyle := VsPartition | VsCanary | VsBlueGreen.
Definition vstyle_eqb (a b : vstyle) : bool :=
  match a, b with VsPartition, VsPartition | VsCanary, VsCanary | VsBlueGreen, VsBlueGreen => true | _, _ => false end.

Record vstep := {
  vs_replicas : option ios;
  vs_traffic : option ios;       (* v1beta1 traffic string: IPct p for "p%", IBad otherwise *)
  vs_matches : bool;             (* v1beta1: len(matches) > 0; v1alpha1: matches != nil *)
  vs_weight : option Z           (* v1alpha1 only *)
}.
Record vtraffic := { vt_grace : Z; vt_service_empty : bool; vt_ingress : option bool (* name non-empty *);
                     vt_gateway : option bool (* HTTPRoute name set *); vt_custom : bool }.

Record vref := { vr_present : bool; vr_supported : bool; vr_bluegreen_ok : bool; vr_is_deployment : bool; vr_key : string (* apiVersion/kind/name *) }.
Inductive vstrategy := VNone | VBoth | VCanaryS (enable_extra : bool) (steps : list vstep) (trs : list vtraffic)
                     | VBlueGreenS (steps : list vstep) (trs : list vtraffic).
Record vrollout := { v_name : string; v_ref : vref; v_strategy : vstrategy;
                     v_style_anno : string  (* v1alpha1: lower-cased rollouts.kruise.io/rolling-style annotation *) }.

Definition steps_of (s : vstrategy) : list vstep := match s with VCanaryS _ st _ | VBlueGreenS st _ => st | _ => [] end.
Definition trs_of (s : vstrategy) : list vtraffic := match s with VCanaryS _ _ t | VBlueGreenS _ t => t | _ => [] end.

(* GetRollingStyle / IsRealPartition / GetContextFromv1beta1Rollout *)
Definition rolling_style (r : vrollout) : vstyle :=
  match v_strategy r with
  | VBlueGreenS _ _ | VBoth => VsBlueGreen
  | VCanaryS true _ _ => VsCanary
  | _ => VsPartition
  end.
Definition context_style (r : vrollout) : option vstyle :=
  match v_strategy r with
  | VNone => None
  | VBlueGreenS _ _ | VBoth => Some VsBlueGreen
  | VCanaryS extra _ _ => Some (if extra && vr_is_deployment (v_ref r) then VsCanary else VsPartition)
  end.

Definition is_pct (r : option ios) : bool := match r with Some (IInt _) => false | _ => true end.   (* nil counts as percentage *)
Definition val100 (r : option ios) : Z := match r with Some x => scaled true x 100 | None => 0 end.
Definition partition_limit : Z := 50.

Definition traffic_ok (st : vtraffic) : bool :=
  (0 <=? vt_grace st) && negb (vt_service_empty st) &&
  (match vt_gateway st, vt_ingress st with None, None => vt_custom st | _, _ => true end) &&
  (match vt_ingress st with Some b => b | None => true end) && (match vt_gateway st with Some b => b | None => true end).

(* first loop of validateRolloutSpecCanarySteps, one step *)
Definition step_ok (style : option vstyle) (s : vstep) : bool :=
  match vs_replicas s with
  | None => false
  | Some r =>
    let '(v, err) := scaled_err true r 100 in
    if err || (v <=? 0) || ((100 <? v) && is_pct (Some r)) then false else
    if match vs_traffic s with None => negb (vs_matches s) | Some _ => false end then true else
    if match style with Some VsPartition => is_pct (Some r) && (partition_limit <? v) | _ => false end then false else
    match vs_traffic s with
    | None => true
    | Some t => let '(w, werr) := scaled_err true t 100 in
                match style with
                | Some VsBlueGreen => negb (werr || (w <? 0) || (100 <? w))
                | _ => negb (werr || (w <=? 0) || (100 <? w))
                end
    end
  end.
(* second loop: each step against the previous step OF THE SAME TYPE *)
Fixpoint monotone_from (last_pct last_int : option Z) (steps : list vstep) : bool :=
  match steps with
  | [] => true
  | s :: t =>
    let v := val100 (vs_replicas s) in
    if is_pct (vs_replicas s)
    then (match last_pct with Some p => p <=? v | None => true end) && monotone_from (Some v) last_int t
    else (match last_int with Some p => p <=? v | None => true end) && monotone_from last_pct (Some v) t
  end.
Definition steps_ok (style : option vstyle) (steps : list vstep) : bool :=
  negb (match steps with [] => true | _ => false end) && forallb (step_ok style) steps && monotone_from None None steps.

Definition ref_ok (style : option vstyle) (r : vref) : bool :=
  vr_present r && vr_supported r && (match style with Some VsBlueGreen => vr_bluegreen_ok r | _ => true end).

(* validateRolloutSpec (v1beta1) *)
Definition spec_ok (r : vrollout) : bool :=
  let style := context_style r in
  ref_ok style (v_ref r) &&
  match v_strategy r with
  | VNone | VBoth => false
  | VCanaryS _ steps trs | VBlueGreenS steps trs => steps_ok style steps && (zlen trs <=? 1) && forallb traffic_ok trs
  end.

(* validateRolloutConflict: another Rollout of the namespace references the same workload *)
Definition conflicts (r : vrollout) (others : list vrollout) : bool :=
  existsb (fun o => negb (String.eqb (v_name o) (v_name r)) && vr_present (v_ref o) && vr_present (v_ref r) && String.eqb (vr_key (v_ref o)) (vr_key (v_ref r))) others.

Definition create_ok (r : vrollout) (others : list vrollout) : bool := spec_ok r && negb (conflicts r others).

(* validateRolloutUpdate: while the live object is Progressing or Terminating nothing structural may change *)
Definition trs_key (r : vrollout) : list vtraffic := match v_strategy r with VBoth => [] | s => trs_of s end.   (* GetTrafficRouting follows the style *)
Definition vtraffic_eqb (a b : vtraffic) : bool :=
  (vt_grace a =? vt_grace b) && Bool.eqb (vt_service_empty a) (vt_service_empty b) && opt_eqb Bool.eqb (vt_ingress a) (vt_ingress b) &&
  opt_eqb Bool.eqb (vt_gateway a) (vt_gateway b) && Bool.eqb (vt_custom a) (vt_custom b).
Definition update_ok (old new : vrollout) (others : list vrollout) (live_busy : bool) (same_traffic : bool) : bool :=
  create_ok new others &&
  (if live_busy then
     String.eqb (vr_key (v_ref old)) (vr_key (v_ref new)) && Bool.eqb (vr_present (v_ref old)) (vr_present (v_ref new)) &&
     same_traffic && vstyle_eqb (rolling_style old) (rolling_style new) &&
     (zlen (steps_of (v_strategy old)) =? zlen (steps_of (v_strategy new)))
   else true).
