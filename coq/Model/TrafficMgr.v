(* Model of the traffic routing manager (pkg/trafficrouting/manager.go) over an abstract network state, with the
   grace-period bookkeeping of pkg/util/grace (RunWithGraceSeconds, expectations) and the gateway provider reduced to
   what the Ingress provider does to the canary Ingress (C14 relates that to the real annotations).
   Every function returns the individual API writes in order, so that properties can be stated at every write. *)
From RV Require Import Base.Util.

Record strategy := { st_weight : option Z; st_match : option string }.
Definition strategy_eqb (a b : strategy) : bool := opt_eqb Z.eqb (st_weight a) (st_weight b) && opt_eqb String.eqb (st_match a) (st_match b).
Definition strategy_empty (s : strategy) : bool :=
  match st_weight s, st_match s with None, None => true | _, _ => false end.
Definition weight_only (w : Z) : strategy := {| st_weight := Some w; st_match := None |}.

(* the canary Ingress: absent, or present with canary annotations equal to what the class script writes for a strategy *)
Inductive route := RNone | RSet (s : strategy).
Definition route_eqb (a b : route) : bool :=
  match a, b with RNone, RNone => true | RSet x, RSet y => strategy_eqb x y | _, _ => false end.

Record net := {
  n_stable_exists : bool;
  n_stable_sel : option string;       (* revision the stable Service is pinned to *)
  n_canary_svc : option string;       (* canary Service: revision it selects *)
  n_route : route
}.

Inductive write :=
| WCreateCanarySvc (rev : string) | WPatchCanarySvc (rev : string) | WDeleteCanarySvc
| WPinStable (rev : string) | WUnpinStable
| WRoute (s : strategy) | WDeleteRoute.

Definition apply_write (n : net) (w : write) : net :=
  match w with
  | WCreateCanarySvc r | WPatchCanarySvc r =>
    {| n_stable_exists := n_stable_exists n; n_stable_sel := n_stable_sel n; n_canary_svc := Some r; n_route := n_route n |}
  | WDeleteCanarySvc => {| n_stable_exists := n_stable_exists n; n_stable_sel := n_stable_sel n; n_canary_svc := None; n_route := n_route n |}
  | WPinStable r => {| n_stable_exists := n_stable_exists n; n_stable_sel := if sempty r then None else Some r;   (* an empty value reads back as "not pinned" *) n_canary_svc := n_canary_svc n; n_route := n_route n |}
  | WUnpinStable => {| n_stable_exists := n_stable_exists n; n_stable_sel := None; n_canary_svc := n_canary_svc n; n_route := n_route n |}
  | WRoute s => {| n_stable_exists := n_stable_exists n; n_stable_sel := n_stable_sel n; n_canary_svc := n_canary_svc n; n_route := RSet s |}
  | WDeleteRoute => {| n_stable_exists := n_stable_exists n; n_stable_sel := n_stable_sel n; n_canary_svc := n_canary_svc n; n_route := RNone |}
  end.
Definition apply_writes (n : net) (ws : list write) : net := fold_left apply_write ws n.

(* ---- grace expectations: action -> has its grace period elapsed ---- *)
Inductive gaction := GUpdateRoute | GRestoreGateway | GRemoveCanary | GPatchService | GRestoreService.
Definition gaction_eqb (a b : gaction) : bool :=
  match a, b with GUpdateRoute, GUpdateRoute | GRestoreGateway, GRestoreGateway | GRemoveCanary, GRemoveCanary
  | GPatchService, GPatchService | GRestoreService, GRestoreService => true | _, _ => false end.
Definition graces := list (gaction * bool).
Definition g_lookup (a : gaction) (g : graces) : option bool :=
  match find (fun p => gaction_eqb (fst p) a) g with Some p => Some (snd p) | None => None end.
Definition g_remove (a : gaction) (g : graces) : graces := filter (fun p => negb (gaction_eqb (fst p) a)) g.
Definition g_expect (a : gaction) (g : graces) : graces := (a, false) :: g_remove a g.
Definition g_tick (g : graces) : graces := map (fun p => (fst p, true)) g.

(* RunWithGraceSeconds, given what the closure did: (retry, expectations) *)
Definition with_grace (zero_grace : bool) (a : gaction) (modified err : bool) (g : graces) : bool * graces :=
  if err then (true, g) else
  if zero_grace then (false, g_remove a g) else
  if modified then (true, g_expect a g) else
  match g_lookup a g with
  | Some false => (true, g)
  | _ => (false, g_remove a g)
  end.

(* ---- the provider (Ingress): EnsureRoutes / Finalise on the canary Ingress ---- *)
Definition init_strategy : strategy := weight_only 0.
(* (verified, writes) *)
Definition ensure_routes (r : route) (s : strategy) : bool * list write :=
  match r with
  | RNone => if strategy_eqb s init_strategy then (true, []) else (false, [WRoute init_strategy])
  | RSet x => if strategy_eqb x s then (true, []) else (false, [WRoute s])
  end.
(* (modified, writes) *)
Definition finalise_routes (r : route) : bool * list write :=
  match r with RNone => (false, []) | RSet _ => (true, [WDeleteRoute]) end.

(* ---- TrafficRoutingContext ---- *)
Record tctx := {
  tc_refs : bool;                     (* the strategy has traffic routing configured *)
  tc_zero_grace : bool;               (* gracePeriodSeconds = 0 on every ref *)
  tc_strategy : strategy;             (* of the current step *)
  tc_stable_rev : string; tc_canary_rev : string;
  tc_last_update : option bool;       (* status lastUpdateTime: None = unset, Some e = set, e = older than the grace period *)
  tc_key : bool;                      (* the revision label key is known (it comes from the workload; empty when the workload is gone) *)
  tc_gateway_fails : bool;            (* the provider's API call fails in this invocation (fault injection) *)
  tc_only_traffic : bool              (* OnlyTrafficRouting (a TrafficRouting object drives the gateway) or disableGenerateCanaryService: no canary Service, no pinning; the canary route points at the stable Service *)
}.
Record tres := {
  tr_ok : bool;                       (* DoTrafficRouting / FinalisingTrafficRouting: done.  others: no retry needed *)
  tr_err : bool;
  tr_writes : list write;
  tr_graces : graces;
  tr_touched : bool                   (* c.LastUpdateTime was set to now *)
}.
Definition tdone ok g := {| tr_ok := ok; tr_err := false; tr_writes := []; tr_graces := g; tr_touched := false |}.

(* DoTrafficRouting *)
Definition do_traffic_routing (c : tctx) (n : net) (g : graces) : tres :=
  if negb (tc_refs c) then tdone true g else
  if strategy_empty (tc_strategy c) then tdone true g else
  if negb (n_stable_exists n) then tdone false g else
  if match tc_last_update c with Some false => true | _ => false end then tdone false g else
  if negb (tc_only_traffic c) && (sempty (tc_stable_rev c) || sempty (tc_canary_rev c)) then tdone false g else
  let w1 := if tc_only_traffic c then [] else match n_canary_svc n with
            | None => [WCreateCanarySvc (tc_canary_rev c)]
            | Some r => if String.eqb r (tc_canary_rev c) then [] else [WPatchCanarySvc (tc_canary_rev c)]
            end in
  let w2 := if tc_only_traffic c then [] else match n_stable_sel n with
            | Some r => if String.eqb r (tc_stable_rev c) then [] else [WPinStable (tc_stable_rev c)]
            | None => [WPinStable (tc_stable_rev c)]
            end in
  match w1 ++ w2 with
  | [] => if tc_gateway_fails c then {| tr_ok := false; tr_err := true; tr_writes := []; tr_graces := g; tr_touched := false |} else
          let '(verified, ws) := ensure_routes (n_route n) (tc_strategy c) in
          {| tr_ok := verified; tr_err := false; tr_writes := ws; tr_graces := g; tr_touched := false |}
  | ws => {| tr_ok := false; tr_err := false; tr_writes := ws; tr_graces := g; tr_touched := true |}
  end.

(* the four guarded operations; tr_ok = not retry *)
Definition restore_stable_service (c : tctx) (n : net) (g : graces) : tres :=
  if negb (tc_refs c) then tdone true g else
  if negb (n_stable_exists n) then tdone true g else
  let modified := tc_key c && match n_stable_sel n with Some r => negb (sempty r) | None => false end in
  let '(retry, g') := with_grace (tc_zero_grace c) GRestoreService modified false g in
  {| tr_ok := negb retry; tr_err := false; tr_writes := if modified then [WUnpinStable] else []; tr_graces := g'; tr_touched := modified |}.

Definition patch_stable_service (c : tctx) (n : net) (g : graces) : tres :=
  if negb (tc_refs c) then tdone true g else
  (* OnlyTrafficRouting / disableGenerateCanaryService: nothing is pinned; the call reports "retry" and leaves it to its caller *)
  if tc_only_traffic c then {| tr_ok := false; tr_err := false; tr_writes := []; tr_graces := g; tr_touched := false |} else
  if negb (n_stable_exists n) then {| tr_ok := true; tr_err := true; tr_writes := []; tr_graces := g; tr_touched := false |} else
  let modified := negb (opt_eqb String.eqb (match n_stable_sel n with Some r => Some r | None => Some ""%string end) (Some (tc_stable_rev c))) in
  let '(retry, g') := with_grace (tc_zero_grace c) GPatchService modified false g in
  {| tr_ok := negb retry; tr_err := false; tr_writes := if modified then [WPinStable (tc_stable_rev c)] else []; tr_graces := g'; tr_touched := modified |}.

Definition restore_gateway (c : tctx) (n : net) (g : graces) : tres :=
  if negb (tc_refs c) then tdone true g else
  if tc_gateway_fails c then {| tr_ok := false; tr_err := true; tr_writes := []; tr_graces := g; tr_touched := false |} else   (* an error keeps the expectations *)
  let '(modified, ws) := finalise_routes (n_route n) in
  let '(retry, g') := with_grace (tc_zero_grace c) GRestoreGateway modified false g in
  {| tr_ok := negb retry; tr_err := false; tr_writes := ws; tr_graces := g'; tr_touched := modified |}.

Definition remove_canary_service (c : tctx) (n : net) (g : graces) : tres :=
  if negb (tc_refs c) then tdone true g else
  if tc_only_traffic c then tdone true g else
  let modified := match n_canary_svc n with Some _ => true | None => false end in
  let '(retry, g') := with_grace (tc_zero_grace c) GRemoveCanary modified false g in
  {| tr_ok := negb retry; tr_err := false; tr_writes := if modified then [WDeleteCanarySvc] else []; tr_graces := g'; tr_touched := false |}.

Definition route_all_to_new (c : tctx) (n : net) (g : graces) : tres :=
  if negb (tc_refs c) then tdone true g else
  (* since the fix of F20: without a canary Service (no step routed traffic) there is nothing to route to *)
  if negb (tc_only_traffic c) && match n_canary_svc n with None => true | Some _ => false end then tdone true g else
  (* a failed EnsureRoutes counts as "not verified": the timestamp is touched although nothing was written *)
  if tc_gateway_fails c then {| tr_ok := false; tr_err := true; tr_writes := []; tr_graces := g; tr_touched := true |} else
  let '(verified, ws) := ensure_routes (n_route n) (weight_only 100) in
  let '(retry, g') := with_grace (tc_zero_grace c) GUpdateRoute (negb verified) false g in
  {| tr_ok := negb retry; tr_err := false; tr_writes := ws; tr_graces := g'; tr_touched := negb verified |}.

(* FinalisingTrafficRouting: stable Service, gateway, canary Service -- each must complete before the next starts *)
Definition seq_tres (a : tres) (k : graces -> tres) : tres :=
  if tr_err a || negb (tr_ok a) then {| tr_ok := false; tr_err := tr_err a; tr_writes := tr_writes a; tr_graces := tr_graces a; tr_touched := tr_touched a |}
  else let b := k (tr_graces a) in
       {| tr_ok := tr_ok b; tr_err := tr_err b; tr_writes := tr_writes a ++ tr_writes b; tr_graces := tr_graces b; tr_touched := tr_touched a || tr_touched b |}.
Definition finalising_traffic_routing (c : tctx) (n : net) (g : graces) : tres :=
  if negb (tc_refs c) then tdone true g else
  seq_tres (restore_stable_service c n g) (fun g1 =>
  seq_tres (restore_gateway c n g1) (fun g2 => remove_canary_service c n g2)).
