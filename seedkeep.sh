#!/bin/bash
# seedkeep.sh <seed-id> <property> <worktree> <demo-dest-relative-path> <go test package> <-run regex> : confirm a seeded change and store it under /verif/seeded/<seed-id>/
set -e
ID=$1; PROP=$2; WT=$3; DEST=$4; PKG=$5; RUN=$6
export GOFLAGS=-mod=mod GOPROXY=off GOSUMDB=off GOTOOLCHAIN=local
cd $WT
git stash -q -u 2>/dev/null || true
git checkout -q -- . ; git clean -fdq -e SEEDED || true
git stash pop -q 2>/dev/null || true
# state: make sure patch is applied exactly once
git checkout -q -- . 
cp SEEDED/demo_test.go $DEST
echo "== original:"; (go test -count=1 -run "$RUN" $PKG 2>&1 | tail -3) ; ORIG=${PIPESTATUS[0]}
git apply SEEDED/patch.diff
echo "== with change:"; (go test -count=1 -run "$RUN" $PKG 2>&1 | tail -3)
go build ./... && echo build-ok
rm -f $DEST
echo "== existing tests of the package with the change:"; go test -count=1 $PKG 2>&1 | tail -2
git checkout -q -- .
mkdir -p /verif/seeded/$ID
cp SEEDED/patch.diff SEEDED/demo_test.go /verif/seeded/$ID/
cp SEEDED/README.md /verif/seeded/$ID/README.md
