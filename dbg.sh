#!/bin/bash
# dbg.sh <workdir> <engine> <global case index> '<Coq expression over c>' : evaluate an expression on one case of a generated cases file
D=$1; E=$2; I=$3; X=$4
SH=$((I/${SHARD:-400})); K=$((I%${SHARD:-400}))
F=$D/cases_${E}_$SH.v
head -n -4 $F > $D/dbg.v
echo "Definition DBG := Eval vm_compute in (match nth_error cases $K with Some c => Some ($X) | None => None end). Print DBG." >> $D/dbg.v
(cd $D && coqc -Q /verif/coq RV dbg.v 2>&1 | tail -40)
